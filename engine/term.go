package main

// Term layer: hash-consed SMT terms with a local simplifier and an SMT-LIB2
// printer.  The simplifier is only an optimisation; verdicts go to the solver.

import (
	"fmt"
	"math/bits"
	"strings"
)

type SortKind uint8

const (
	KBool SortKind = iota
	KBV
	KHash
)

type Sort struct {
	K SortKind
	W uint8 // width for KBV (1..64)
}

var (
	SBool = Sort{KBool, 0}
	SHash = Sort{KHash, 0}
)

func SBV(w int) Sort { return Sort{KBV, uint8(w)} }

func (s Sort) String() string {
	switch s.K {
	case KBool:
		return "Bool"
	case KHash:
		return "H"
	}
	return fmt.Sprintf("(_ BitVec %d)", s.W)
}

type Op uint8

const (
	OConst Op = iota
	OVar
	ONot
	OAnd
	OOr
	OIte
	OEq
	OAdd
	OSub
	OMul
	OBAnd
	OBOr
	OBXor
	OBNot
	ONeg
	OShl
	OLshr
	OAshr
	OUdiv
	OUrem
	OSdiv
	OSrem
	OUlt
	OUle
	OSlt
	OSle
	OExtract // val = hi<<8 | lo
	OConcat
	OZext
	OSext
	OHZero
	OHAtom
	OHNode
	OHByte      // args[0]: H, val = index -> BV8
	OHFromBytes // 32 x BV8 -> H
)

var opNames = map[Op]string{
	ONot: "not", OAnd: "and", OOr: "or", OIte: "ite", OEq: "=",
	OAdd: "bvadd", OSub: "bvsub", OMul: "bvmul", OBAnd: "bvand", OBOr: "bvor", OBXor: "bvxor",
	OBNot: "bvnot", ONeg: "bvneg", OShl: "bvshl", OLshr: "bvlshr", OAshr: "bvashr",
	OUdiv: "bvudiv", OUrem: "bvurem", OSdiv: "bvsdiv", OSrem: "bvsrem",
	OUlt: "bvult", OUle: "bvule", OSlt: "bvslt", OSle: "bvsle", OConcat: "concat",
	OHNode: "Node", OHAtom: "Atom", OHFromBytes: "hfrom",
}

type Term struct {
	id   int
	op   Op
	sort Sort
	args []*Term
	val  uint64
	name string
}

func (t *Term) IsConst() bool { return t.op == OConst }
func (t *Term) IsTrue() bool  { return t.op == OConst && t.sort.K == KBool && t.val == 1 }
func (t *Term) IsFalse() bool { return t.op == OConst && t.sort.K == KBool && t.val == 0 }

// TT is a term table (one per worker; not shared between goroutines).
type TT struct {
	tab      map[string]*Term
	next     int
	distinct map[[2]int]bool // known-distinct pairs on the current path (implied by the path condition)
	True     *Term
	False    *Term
	HZero    *Term
}

func NewTT() *TT {
	tt := &TT{tab: map[string]*Term{}, distinct: map[[2]int]bool{}}
	tt.True = tt.intern(&Term{op: OConst, sort: SBool, val: 1})
	tt.False = tt.intern(&Term{op: OConst, sort: SBool, val: 0})
	tt.HZero = tt.intern(&Term{op: OHZero, sort: SHash})
	return tt
}

func (tt *TT) intern(t *Term) *Term {
	var sb strings.Builder
	fmt.Fprintf(&sb, "%d|%d.%d|%d|%s|", t.op, t.sort.K, t.sort.W, t.val, t.name)
	for _, a := range t.args {
		fmt.Fprintf(&sb, "%d,", a.id)
	}
	k := sb.String()
	if e, ok := tt.tab[k]; ok {
		return e
	}
	t.id = tt.next
	tt.next++
	tt.tab[k] = t
	return t
}

func mask(w uint8) uint64 {
	if w >= 64 {
		return ^uint64(0)
	}
	return (uint64(1) << w) - 1
}

func (tt *TT) Bool(b bool) *Term {
	if b {
		return tt.True
	}
	return tt.False
}

func (tt *TT) BV(w int, v uint64) *Term {
	return tt.intern(&Term{op: OConst, sort: SBV(w), val: v & mask(uint8(w))})
}

func (tt *TT) Var(name string, s Sort) *Term {
	return tt.intern(&Term{op: OVar, sort: s, name: name})
}

func (tt *TT) mk(op Op, s Sort, val uint64, args ...*Term) *Term {
	return tt.intern(&Term{op: op, sort: s, val: val, args: args})
}

func signExt(v uint64, w uint8) int64 {
	if w >= 64 {
		return int64(v)
	}
	if v&(uint64(1)<<(w-1)) != 0 {
		return int64(v | ^mask(w))
	}
	return int64(v)
}

// ---- boolean ----

func (tt *TT) Not(a *Term) *Term {
	if a.IsConst() {
		return tt.Bool(a.val == 0)
	}
	if a.op == ONot {
		return a.args[0]
	}
	return tt.mk(ONot, SBool, 0, a)
}

func (tt *TT) And(as ...*Term) *Term {
	var out []*Term
	seen := map[int]bool{}
	for _, a := range as {
		if a.IsFalse() {
			return tt.False
		}
		if a.IsTrue() {
			continue
		}
		if a.op == OAnd {
			for _, b := range a.args {
				if !seen[b.id] {
					seen[b.id] = true
					out = append(out, b)
				}
			}
			continue
		}
		if !seen[a.id] {
			seen[a.id] = true
			out = append(out, a)
		}
	}
	for _, a := range out {
		if a.op == ONot && seen[a.args[0].id] {
			return tt.False
		}
	}
	if len(out) == 0 {
		return tt.True
	}
	if len(out) == 1 {
		return out[0]
	}
	return tt.mk(OAnd, SBool, 0, out...)
}

func (tt *TT) Or(as ...*Term) *Term {
	var out []*Term
	seen := map[int]bool{}
	for _, a := range as {
		if a.IsTrue() {
			return tt.True
		}
		if a.IsFalse() {
			continue
		}
		if a.op == OOr {
			for _, b := range a.args {
				if !seen[b.id] {
					seen[b.id] = true
					out = append(out, b)
				}
			}
			continue
		}
		if !seen[a.id] {
			seen[a.id] = true
			out = append(out, a)
		}
	}
	for _, a := range out {
		if a.op == ONot && seen[a.args[0].id] {
			return tt.True
		}
	}
	if len(out) == 0 {
		return tt.False
	}
	if len(out) == 1 {
		return out[0]
	}
	return tt.mk(OOr, SBool, 0, out...)
}

func (tt *TT) Ite(c, a, b *Term) *Term {
	if c.IsTrue() {
		return a
	}
	if c.IsFalse() {
		return b
	}
	if a == b {
		return a
	}
	if a.sort.K == KBool {
		if a.IsTrue() && b.IsFalse() {
			return c
		}
		if a.IsFalse() && b.IsTrue() {
			return tt.Not(c)
		}
		if a.IsTrue() {
			return tt.Or(c, b)
		}
		if a.IsFalse() {
			return tt.And(tt.Not(c), b)
		}
		if b.IsTrue() {
			return tt.Or(tt.Not(c), a)
		}
		if b.IsFalse() {
			return tt.And(c, a)
		}
	}
	if c.op == ONot {
		return tt.Ite(c.args[0], b, a)
	}
	return tt.mk(OIte, a.sort, 0, c, a, b)
}

func (tt *TT) MarkDistinct(a, b *Term) {
	x, y := a.id, b.id
	if x > y {
		x, y = y, x
	}
	tt.distinct[[2]int{x, y}] = true
}

func (tt *TT) knownDistinct(a, b *Term) bool {
	x, y := a.id, b.id
	if x > y {
		x, y = y, x
	}
	return tt.distinct[[2]int{x, y}]
}

func (tt *TT) Eq(a, b *Term) *Term {
	if a == b {
		return tt.True
	}
	if a.sort != b.sort {
		panic(fmt.Sprintf("Eq sort mismatch %v %v", a.sort, b.sort))
	}
	if a.IsConst() && b.IsConst() {
		return tt.Bool(a.val == b.val)
	}
	if tt.knownDistinct(a, b) {
		return tt.False
	}
	if a.sort.K == KHash {
		// constructor reasoning
		ca, cb := hctor(a), hctor(b)
		if ca != 0 && cb != 0 {
			if ca != cb {
				return tt.False
			}
			switch a.op {
			case OHZero:
				return tt.True
			case OHAtom:
				return tt.Eq(a.args[0], b.args[0])
			case OHNode:
				return tt.And(tt.Eq(a.args[0], b.args[0]), tt.Eq(a.args[1], b.args[1]))
			}
		}
		// occurs check: x == Node(.. x ..) is false in a free algebra
		if ca == 3 && occursIn(b, a) {
			return tt.False
		}
		if cb == 3 && occursIn(a, b) {
			return tt.False
		}
	}
	if a.sort.K == KBool {
		if a.IsTrue() {
			return b
		}
		if b.IsTrue() {
			return a
		}
		if a.IsFalse() {
			return tt.Not(b)
		}
		if b.IsFalse() {
			return tt.Not(a)
		}
	}
	if a.id > b.id {
		a, b = b, a
	}
	return tt.mk(OEq, SBool, 0, a, b)
}

func hctor(t *Term) int {
	switch t.op {
	case OHZero:
		return 1
	case OHAtom:
		return 2
	case OHNode:
		return 3
	}
	return 0
}

// occursIn reports whether x occurs as a strict constructor-subterm of t (t built from Node).
func occursIn(x, t *Term) bool {
	if t.op != OHNode {
		return false
	}
	for _, a := range t.args {
		if a == x || occursIn(x, a) {
			return true
		}
	}
	return false
}

// ---- bit-vectors ----

func (tt *TT) bin(op Op, a, b *Term) *Term {
	if a.sort != b.sort {
		panic(fmt.Sprintf("binop %v sort mismatch %v %v", opNames[op], a.sort, b.sort))
	}
	w := a.sort.W
	m := mask(w)
	if a.IsConst() && b.IsConst() {
		x, y := a.val, b.val
		var r uint64
		switch op {
		case OAdd:
			r = x + y
		case OSub:
			r = x - y
		case OMul:
			r = x * y
		case OBAnd:
			r = x & y
		case OBOr:
			r = x | y
		case OBXor:
			r = x ^ y
		case OShl:
			if y >= uint64(w) {
				r = 0
			} else {
				r = x << y
			}
		case OLshr:
			if y >= uint64(w) {
				r = 0
			} else {
				r = x >> y
			}
		case OAshr:
			sx := signExt(x, w)
			if y >= uint64(w) {
				if sx < 0 {
					r = m
				} else {
					r = 0
				}
			} else {
				r = uint64(sx >> y)
			}
		case OUdiv:
			if y == 0 {
				r = m
			} else {
				r = x / y
			}
		case OUrem:
			if y == 0 {
				r = x
			} else {
				r = x % y
			}
		case OSdiv:
			sx, sy := signExt(x, w), signExt(y, w)
			if sy == 0 {
				if sx < 0 {
					r = 1
				} else {
					r = m
				}
			} else {
				r = uint64(sx / sy)
			}
		case OSrem:
			sx, sy := signExt(x, w), signExt(y, w)
			if sy == 0 {
				r = x
			} else {
				r = uint64(sx % sy)
			}
		}
		return tt.BV(int(w), r&m)
	}
	switch op {
	case OAdd:
		if a.IsConst() && a.val == 0 {
			return b
		}
		if b.IsConst() && b.val == 0 {
			return a
		}
		// (x + c1) + c2
		if b.IsConst() && a.op == OAdd && a.args[1].IsConst() {
			return tt.bin(OAdd, a.args[0], tt.BV(int(w), a.args[1].val+b.val))
		}
		if b.IsConst() && a.op == OSub && a.args[1].IsConst() {
			return tt.bin(OAdd, a.args[0], tt.BV(int(w), b.val-a.args[1].val))
		}
		if a.IsConst() {
			a, b = b, a
		}
	case OSub:
		if b.IsConst() && b.val == 0 {
			return a
		}
		if a == b {
			return tt.BV(int(w), 0)
		}
		if b.IsConst() {
			return tt.bin(OAdd, a, tt.BV(int(w), -b.val))
		}
	case OMul:
		if (a.IsConst() && a.val == 0) || (b.IsConst() && b.val == 0) {
			return tt.BV(int(w), 0)
		}
		if a.IsConst() && a.val == 1 {
			return b
		}
		if b.IsConst() && b.val == 1 {
			return a
		}
	case OBAnd:
		if a == b {
			return a
		}
		if a.IsConst() {
			a, b = b, a
		}
		if b.IsConst() {
			if b.val == 0 {
				return b
			}
			if b.val == m {
				return a
			}
			if a.op == OBAnd && a.args[1].IsConst() {
				return tt.bin(OBAnd, a.args[0], tt.BV(int(w), a.args[1].val&b.val))
			}
			// (zext x) & c where c covers all low bits
			if a.op == OZext {
				iw := a.args[0].sort.W
				if b.val&mask(iw) == mask(iw) {
					return a
				}
			}
		}
	case OBOr:
		if a == b {
			return a
		}
		if a.IsConst() {
			a, b = b, a
		}
		if b.IsConst() {
			if b.val == 0 {
				return a
			}
			if b.val == m {
				return b
			}
		}
	case OBXor:
		if a == b {
			return tt.BV(int(w), 0)
		}
		if a.IsConst() {
			a, b = b, a
		}
		if b.IsConst() && b.val == 0 {
			return a
		}
		if b.IsConst() && a.op == OBXor && a.args[1].IsConst() {
			return tt.bin(OBXor, a.args[0], tt.BV(int(w), a.args[1].val^b.val))
		}
	case OShl, OLshr, OAshr:
		if b.IsConst() && b.val == 0 {
			return a
		}
		if a.IsConst() && a.val == 0 {
			return a
		}
		if b.IsConst() && b.val >= uint64(w) && op != OAshr {
			return tt.BV(int(w), 0)
		}
		if b.IsConst() && a.op == op && a.args[1].IsConst() && op != OAshr {
			s := a.args[1].val + b.val
			if s >= uint64(w) {
				return tt.BV(int(w), 0)
			}
			return tt.bin(op, a.args[0], tt.BV(int(w), s))
		}
		if op == OLshr && b.IsConst() && a.op == OZext {
			iw := a.args[0].sort.W
			if b.val >= uint64(iw) {
				return tt.BV(int(w), 0)
			}
		}
	case OUdiv:
		if b.IsConst() && b.val == 1 {
			return a
		}
	}
	return tt.mk(op, a.sort, 0, a, b)
}

func (tt *TT) Add(a, b *Term) *Term  { return tt.bin(OAdd, a, b) }
func (tt *TT) Sub(a, b *Term) *Term  { return tt.bin(OSub, a, b) }
func (tt *TT) Mul(a, b *Term) *Term  { return tt.bin(OMul, a, b) }
func (tt *TT) BAnd(a, b *Term) *Term { return tt.bin(OBAnd, a, b) }
func (tt *TT) BOr(a, b *Term) *Term  { return tt.bin(OBOr, a, b) }
func (tt *TT) BXor(a, b *Term) *Term { return tt.bin(OBXor, a, b) }
func (tt *TT) Shl(a, b *Term) *Term  { return tt.bin(OShl, a, b) }
func (tt *TT) Lshr(a, b *Term) *Term { return tt.bin(OLshr, a, b) }
func (tt *TT) Ashr(a, b *Term) *Term { return tt.bin(OAshr, a, b) }

func (tt *TT) BNot(a *Term) *Term {
	if a.IsConst() {
		return tt.BV(int(a.sort.W), ^a.val)
	}
	if a.op == OBNot {
		return a.args[0]
	}
	return tt.mk(OBNot, a.sort, 0, a)
}

func (tt *TT) Neg(a *Term) *Term {
	if a.IsConst() {
		return tt.BV(int(a.sort.W), -a.val)
	}
	return tt.mk(ONeg, a.sort, 0, a)
}

func (tt *TT) cmp(op Op, a, b *Term) *Term {
	if a.sort != b.sort {
		panic(fmt.Sprintf("cmp sort mismatch %v %v", a.sort, b.sort))
	}
	w := a.sort.W
	if a.IsConst() && b.IsConst() {
		switch op {
		case OUlt:
			return tt.Bool(a.val < b.val)
		case OUle:
			return tt.Bool(a.val <= b.val)
		case OSlt:
			return tt.Bool(signExt(a.val, w) < signExt(b.val, w))
		case OSle:
			return tt.Bool(signExt(a.val, w) <= signExt(b.val, w))
		}
	}
	if a == b {
		return tt.Bool(op == OUle || op == OSle)
	}
	switch op {
	case OUlt:
		if b.IsConst() && b.val == 0 {
			return tt.False
		}
		if a.IsConst() && a.val == mask(w) {
			return tt.False
		}
		// zext(x) < c with c > max(x)
		if b.IsConst() && a.op == OZext && b.val > mask(a.args[0].sort.W) {
			return tt.True
		}
	case OUle:
		if a.IsConst() && a.val == 0 {
			return tt.True
		}
		if b.IsConst() && b.val == mask(w) {
			return tt.True
		}
		if b.IsConst() && a.op == OZext && b.val >= mask(a.args[0].sort.W) {
			return tt.True
		}
	}
	return tt.mk(op, SBool, 0, a, b)
}

func (tt *TT) Ult(a, b *Term) *Term { return tt.cmp(OUlt, a, b) }
func (tt *TT) Ule(a, b *Term) *Term { return tt.cmp(OUle, a, b) }
func (tt *TT) Slt(a, b *Term) *Term { return tt.cmp(OSlt, a, b) }
func (tt *TT) Sle(a, b *Term) *Term { return tt.cmp(OSle, a, b) }

func (tt *TT) Extract(a *Term, hi, lo int) *Term {
	w := hi - lo + 1
	if lo == 0 && w == int(a.sort.W) {
		return a
	}
	if a.IsConst() {
		return tt.BV(w, a.val>>uint(lo))
	}
	switch a.op {
	case OZext, OSext:
		iw := int(a.args[0].sort.W)
		if hi < iw {
			return tt.Extract(a.args[0], hi, lo)
		}
		if a.op == OZext && lo >= iw {
			return tt.BV(w, 0)
		}
		if lo == 0 && hi >= iw {
			if a.op == OZext {
				return tt.Zext(a.args[0], w)
			}
			return tt.Sext(a.args[0], w)
		}
	case OExtract:
		ilo := int(a.val & 0xff)
		return tt.Extract(a.args[0], hi+ilo, lo+ilo)
	case OConcat:
		lw := int(a.args[1].sort.W)
		if hi < lw {
			return tt.Extract(a.args[1], hi, lo)
		}
		if lo >= lw {
			return tt.Extract(a.args[0], hi-lw, lo-lw)
		}
	case OLshr:
		// extract(x >> c) = extract(x, hi+c, lo+c) when it fits
		if a.args[1].IsConst() {
			c := int(a.args[1].val)
			if hi+c < int(a.sort.W) {
				return tt.Extract(a.args[0], hi+c, lo+c)
			}
		}
	case OBAnd, OBOr, OBXor:
		if lo == 0 {
			return tt.bin(a.op, tt.Extract(a.args[0], hi, lo), tt.Extract(a.args[1], hi, lo))
		}
	case OAdd, OSub, OMul, OShl:
		if lo == 0 && a.op != OShl {
			return tt.bin(a.op, tt.Extract(a.args[0], hi, 0), tt.Extract(a.args[1], hi, 0))
		}
	case OIte:
		if a.args[1].IsConst() || a.args[2].IsConst() {
			return tt.Ite(a.args[0], tt.Extract(a.args[1], hi, lo), tt.Extract(a.args[2], hi, lo))
		}
	}
	return tt.mk(OExtract, SBV(w), uint64(hi)<<8|uint64(lo), a)
}

func (tt *TT) Zext(a *Term, w int) *Term {
	if int(a.sort.W) == w {
		return a
	}
	if int(a.sort.W) > w {
		return tt.Extract(a, w-1, 0)
	}
	if a.IsConst() {
		return tt.BV(w, a.val)
	}
	if a.op == OZext {
		return tt.Zext(a.args[0], w)
	}
	if a.op == OIte && (a.args[1].IsConst() || a.args[2].IsConst()) {
		return tt.Ite(a.args[0], tt.Zext(a.args[1], w), tt.Zext(a.args[2], w))
	}
	return tt.mk(OZext, SBV(w), 0, a)
}

func (tt *TT) Sext(a *Term, w int) *Term {
	if int(a.sort.W) == w {
		return a
	}
	if int(a.sort.W) > w {
		return tt.Extract(a, w-1, 0)
	}
	if a.IsConst() {
		return tt.BV(w, uint64(signExt(a.val, a.sort.W)))
	}
	if a.op == OIte && (a.args[1].IsConst() || a.args[2].IsConst()) {
		return tt.Ite(a.args[0], tt.Sext(a.args[1], w), tt.Sext(a.args[2], w))
	}
	return tt.mk(OSext, SBV(w), 0, a)
}

func (tt *TT) Concat(hi, lo *Term) *Term {
	w := int(hi.sort.W) + int(lo.sort.W)
	if hi.IsConst() && lo.IsConst() {
		return tt.BV(w, hi.val<<lo.sort.W|lo.val)
	}
	return tt.mk(OConcat, SBV(w), 0, hi, lo)
}

// ---- hashes ----

func (tt *TT) HAtom(id *Term) *Term { return tt.mk(OHAtom, SHash, 0, id) }
func (tt *TT) HNode(l, r *Term) *Term {
	return tt.mk(OHNode, SHash, 0, l, r)
}

func (tt *TT) HByte(h *Term, i int) *Term {
	if h.op == OHZero {
		return tt.BV(8, 0)
	}
	if h.op == OHFromBytes {
		return h.args[i]
	}
	return tt.mk(OHByte, SBV(8), uint64(i), h)
}

// constAtomBase marks atoms standing for constant non-zero byte patterns (e.g. Hash{1}).
const constAtomBase = uint64(0xC0DE000000000000)

func (tt *TT) HFromBytes(bs []*Term) *Term {
	if len(bs) != 32 {
		panic("HFromBytes needs 32 bytes")
	}
	// round trip
	if bs[0].op == OHByte && bs[0].val == 0 {
		h := bs[0].args[0]
		ok := true
		for i, b := range bs {
			if !(b.op == OHByte && int(b.val) == i && b.args[0] == h) {
				ok = false
				break
			}
		}
		if ok {
			return h
		}
	}
	allc := true
	allz := true
	var fp uint64 = 1469598103934665603
	for _, b := range bs {
		if !b.IsConst() {
			allc = false
			break
		}
		if b.val != 0 {
			allz = false
		}
		fp = (fp ^ b.val) * 1099511628211
	}
	if allc {
		if allz {
			return tt.HZero
		}
		return tt.HAtom(tt.BV(64, constAtomBase|(fp&0xffffffffffff)))
	}
	return tt.mk(OHFromBytes, SHash, 0, append([]*Term(nil), bs...)...)
}

// ---- printing ----

func (t *Term) leaf() bool {
	return t.op == OConst || t.op == OVar || t.op == OHZero
}

func (t *Term) ref() string {
	switch t.op {
	case OConst:
		if t.sort.K == KBool {
			if t.val == 1 {
				return "true"
			}
			return "false"
		}
		if t.sort.W%4 == 0 {
			return fmt.Sprintf("#x%0*x", int(t.sort.W)/4, t.val)
		}
		return fmt.Sprintf("#b%0*b", int(t.sort.W), t.val)
	case OVar:
		return t.name
	case OHZero:
		return "Zero"
	}
	return fmt.Sprintf("t%d", t.id)
}

// body prints the defining expression with children by reference.
func (t *Term) body() string {
	var sb strings.Builder
	switch t.op {
	case OExtract:
		fmt.Fprintf(&sb, "((_ extract %d %d) %s)", t.val>>8, t.val&0xff, t.args[0].ref())
	case OZext:
		fmt.Fprintf(&sb, "((_ zero_extend %d) %s)", int(t.sort.W)-int(t.args[0].sort.W), t.args[0].ref())
	case OSext:
		fmt.Fprintf(&sb, "((_ sign_extend %d) %s)", int(t.sort.W)-int(t.args[0].sort.W), t.args[0].ref())
	case OHByte:
		fmt.Fprintf(&sb, "(hbyte %s %d)", t.args[0].ref(), t.val)
	default:
		sb.WriteString("(")
		sb.WriteString(opNames[t.op])
		for _, a := range t.args {
			sb.WriteString(" ")
			sb.WriteString(a.ref())
		}
		sb.WriteString(")")
	}
	return sb.String()
}

// String gives a human readable (tree) rendering, depth-limited.
func (t *Term) String() string { return t.str(6) }

func (t *Term) str(d int) string {
	if t.leaf() {
		return t.ref()
	}
	if d == 0 {
		return "..."
	}
	var sb strings.Builder
	switch t.op {
	case OExtract:
		fmt.Fprintf(&sb, "(extract[%d:%d] %s)", t.val>>8, t.val&0xff, t.args[0].str(d-1))
	case OZext:
		fmt.Fprintf(&sb, "(zext%d %s)", t.sort.W, t.args[0].str(d-1))
	case OSext:
		fmt.Fprintf(&sb, "(sext%d %s)", t.sort.W, t.args[0].str(d-1))
	case OHByte:
		fmt.Fprintf(&sb, "(hbyte %s %d)", t.args[0].str(d-1), t.val)
	default:
		sb.WriteString("(")
		sb.WriteString(opNames[t.op])
		for _, a := range t.args {
			sb.WriteString(" ")
			sb.WriteString(a.str(d - 1))
		}
		sb.WriteString(")")
	}
	return sb.String()
}

// Len64 / OnesCount64 models (the library versions are table driven).
func (tt *TT) Len64(x *Term) *Term {
	if x.IsConst() {
		return tt.BV(64, uint64(bits.Len64(x.val)))
	}
	// ite chain from the top bit down
	res := tt.BV(64, 0)
	for i := 0; i < 64; i++ {
		bit := tt.Eq(tt.Extract(x, i, i), tt.BV(1, 1))
		res = tt.Ite(bit, tt.BV(64, uint64(i+1)), res)
	}
	return res
}

func (tt *TT) OnesCount64(x *Term) *Term {
	if x.IsConst() {
		return tt.BV(64, uint64(bits.OnesCount64(x.val)))
	}
	res := tt.BV(64, 0)
	for i := 0; i < 64; i++ {
		res = tt.Add(res, tt.Zext(tt.Extract(x, i, i), 64))
	}
	return res
}
