package main

// Lock model, access tracking (C12) and caller-owned memory snapshots (C17).

import (
	"fmt"
	"go/types"
	"strings"
)

type lockState struct {
	writer  bool
	readers int
}

type lockEvent struct {
	Kind string // Lock, Unlock, RLock, RUnlock, R, W
	Loc  string // c<id> / m<id> for accesses
	Held string // "", "r", "w" at the time of the access
}

type trackState struct {
	name       string
	cellMark   int
	mapMark    int
	events     []lockEvent
	violations []string
	// object mode: only locations reachable from the receiver are guarded
	objMode  bool
	cells    map[*Cell]string
	maps     map[*MapObj]string
	readOnly map[*Cell]bool // must never be written (e.g. Full)
	vector   []ReplayVal    // inputs of the path this log comes from (for native replay)
	params   map[string]int
	// storeSplit: two critical sections of the call both touch the node/leaf storage
	storeSplit bool
}

type ownRec struct {
	tag   string
	cells []*Cell
	vals  []Value
}

func (in *Interp) held() string {
	h := ""
	for _, ls := range in.locks {
		if ls.writer {
			return "w"
		}
		if ls.readers > 0 {
			h = "r"
		}
	}
	return h
}

func (in *Interp) lockOp(p Ptr, op string) {
	if p.c == nil {
		in.goPanic("nil RWMutex")
	}
	ls := in.locks[p.c]
	if ls == nil {
		ls = &lockState{}
		in.locks[p.c] = ls
	}
	bad := ""
	switch op {
	case "Lock":
		if ls.writer || ls.readers > 0 {
			bad = "Lock while already held (self-deadlock)"
		}
		ls.writer = true
	case "Unlock":
		if !ls.writer {
			bad = "Unlock of unlocked RWMutex"
		}
		ls.writer = false
	case "RLock":
		if ls.writer {
			bad = "RLock while write-locked (self-deadlock)"
		}
		if ls.readers > 0 {
			bad = "recursive RLock (deadlocks with a waiting writer)"
		}
		ls.readers++
	case "RUnlock":
		if ls.readers == 0 {
			bad = "RUnlock of unlocked RWMutex"
		}
		ls.readers--
	}
	if in.track != nil {
		in.track.events = append(in.track.events, lockEvent{Kind: op})
		if bad != "" {
			in.track.violations = append(in.track.violations, bad+" at "+in.where())
		}
	}
	if bad != "" && (op == "Unlock" || op == "RUnlock") {
		in.goPanic("sync: %s", bad)
	}
}

func (in *Interp) noteRead(c *Cell) {
	if in.track != nil && in.track.objMode {
		if name, ok := in.track.cells[c]; ok {
			in.track.events = append(in.track.events, lockEvent{Kind: "R", Loc: name, Held: in.held()})
		}
		return
	}
	if in.track != nil && c.id <= in.track.cellMark {
		in.track.events = append(in.track.events, lockEvent{Kind: "R", Loc: fmt.Sprintf("c%d", c.id), Held: in.held()})
	}
}

func (in *Interp) noteWrite(c *Cell) {
	if in.track != nil && in.track.objMode {
		if in.track.readOnly[c] {
			in.track.violations = append(in.track.violations, "write to a field that is read without the lock (Full) at "+in.where())
		}
		if name, ok := in.track.cells[c]; ok {
			in.track.events = append(in.track.events, lockEvent{Kind: "W", Loc: name, Held: in.held()})
		}
		return
	}
	if in.track != nil && c.id <= in.track.cellMark {
		in.track.events = append(in.track.events, lockEvent{Kind: "W", Loc: fmt.Sprintf("c%d", c.id), Held: in.held()})
	}
}

func (in *Interp) noteMapRead(m *MapObj) {
	if in.track != nil && in.track.objMode {
		if name, ok := in.track.maps[m]; ok {
			in.track.events = append(in.track.events, lockEvent{Kind: "R", Loc: name, Held: in.held()})
		}
		return
	}
	if in.track != nil && m != nil && m.id <= in.track.mapMark {
		in.track.events = append(in.track.events, lockEvent{Kind: "R", Loc: fmt.Sprintf("m%d", m.id), Held: in.held()})
	}
}

func (in *Interp) noteMapWrite(m *MapObj) {
	if in.track != nil && in.track.objMode {
		if name, ok := in.track.maps[m]; ok {
			in.track.events = append(in.track.events, lockEvent{Kind: "W", Loc: name, Held: in.held()})
		}
		return
	}
	if in.track != nil && m != nil && m.id <= in.track.mapMark {
		in.track.events = append(in.track.events, lockEvent{Kind: "W", Loc: fmt.Sprintf("m%d", m.id), Held: in.held()})
	}
}

func (in *Interp) trackStart(name string) {
	in.track = &trackState{name: name, cellMark: in.cellCount, mapMark: in.mapIDs}
}

func (in *Interp) trackStop() {
	if in.track == nil {
		return
	}
	t := in.track
	in.track = nil
	// lock must be released
	for _, ls := range in.locks {
		if ls.writer || ls.readers > 0 {
			t.violations = append(t.violations, "lock still held at return")
		}
	}
	// one call = one critical section: guarded accesses in two separate sections leave a window in
	// which a block can be applied, so that the call's result is correct for no single state
	sections, depth, inSection := 0, 0, false
	storeSections, inStore := 0, false
	for _, e := range t.events {
		switch e.Kind {
		case "Lock", "RLock":
			depth++
		case "Unlock", "RUnlock":
			depth--
			if depth <= 0 {
				depth = 0
				inSection = false
				inStore = false
			}
		case "R", "W":
			if e.Held != "" && !inSection {
				inSection = true
				sections++
			}
			// sections that touch the node or leaf storage can be told apart in the native replay
			if e.Held != "" && !inStore && (strings.Contains(e.Loc, "Nodes") || strings.Contains(e.Loc, "CachedLeaves")) {
				inStore = true
				storeSections++
			}
		}
	}
	t.storeSplit = storeSections > 1
	if sections > 1 {
		t.violations = append(t.violations, fmt.Sprintf("guarded accesses split over %d critical sections (the lock is released in between)", sections))
	}
	in.tracks = append(in.tracks, t)
}

// own snapshots the contents of a caller-owned slice.
func (in *Interp) own(v Value, tag string) {
	if iv, isIface := v.(Iface); isIface {
		v = iv.v
	}
	s, ok := v.(Slice)
	if !ok || s.arr == nil {
		return
	}
	r := &ownRec{tag: tag}
	if s.hview {
		r.cells = append(r.cells, s.arr)
		r.vals = append(r.vals, s.arr.v)
	} else {
		// the slice's contents are its first len elements; spare capacity is not part of what the property
		// promises (an append into it does not change what the caller sees)
		for i := s.off; i < s.off+s.len && i < len(s.arr.kids); i++ {
			c := s.arr.kids[i]
			r.cells = append(r.cells, c)
			r.vals = append(r.vals, in.load(c))
		}
	}
	in.owned = append(in.owned, r)
}

func (in *Interp) checkOwned(id string) {
	for _, r := range in.owned {
		for i, c := range r.cells {
			eq := in.equal(in.load(c), r.vals[i])
			in.assert(eq, fmt.Sprintf("%s:%s[%d]", id, r.tag, i))
		}
	}
}

// trackStartObj starts tracking of the locations reachable from the receiver (a pointer to a struct):
// its fields, everything behind interface/pointer fields, and map objects.  Fields named rwLock
// (the mutex, trusted) are skipped; fields named Full are registered as read-only.
func (in *Interp) trackStartObj(name string, recv Value) {
	t := &trackState{name: name, objMode: true, cells: map[*Cell]string{}, maps: map[*MapObj]string{}, readOnly: map[*Cell]bool{}}
	if iv, ok := recv.(Iface); ok {
		recv = iv.v
	}
	p, ok := recv.(Ptr)
	if !ok || p.c == nil {
		in.end("error", "verifTrackStartObj: receiver is not a pointer")
	}
	var walkCell func(c *Cell, path string, depth int)
	var walkVal func(v Value, path string, depth int)
	walkVal = func(v Value, path string, depth int) {
		if depth > 6 {
			return
		}
		switch x := v.(type) {
		case Ptr:
			if x.c != nil {
				walkCell(x.c, path, depth+1)
			}
		case Iface:
			if x.t != nil {
				walkVal(x.v, path, depth+1)
			}
		case *MapObj:
			if x != nil {
				t.maps[x] = path
			}
		case Slice:
			if x.arr != nil {
				walkCell(x.arr, path+"[]", depth+1)
			}
		case *Struct:
			for i, f := range x.f {
				walkVal(f, fmt.Sprintf("%s.%d", path, i), depth+1)
			}
		}
	}
	walkCell = func(c *Cell, path string, depth int) {
		if _, seen := t.cells[c]; seen || depth > 8 {
			return
		}
		if st, ok := c.typ.Underlying().(*types.Struct); ok && c.kids != nil {
			for i, k := range c.kids {
				fn := st.Field(i).Name()
				if fn == "rwLock" {
					continue
				}
				if fn == "Full" {
					t.readOnly[k] = true
					continue
				}
				walkCell(k, path+"."+fn, depth+1)
			}
			return
		}
		t.cells[c] = path
		for i, k := range c.kids {
			walkCell(k, fmt.Sprintf("%s[%d]", path, i), depth+1)
		}
		if c.v != nil {
			walkVal(c.v, path, depth)
		}
	}
	walkCell(p.c, "m", 0)
	in.track = t
}
