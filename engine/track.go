package main

// Lock model, access tracking (C12) and caller-owned memory snapshots (C17).

import "fmt"

type lockState struct {
	writer  bool
	readers int
}

type lockEvent struct {
	Kind string // Lock, Unlock, RLock, RUnlock, R, W
	Loc  string // c<id> / m<id> for accesses
	Held string // "", "r", "w" at the time of the access
}

type trackState struct {
	name       string
	cellMark   int
	mapMark    int
	events     []lockEvent
	violations []string
}

type ownRec struct {
	tag   string
	cells []*Cell
	vals  []Value
}

func (in *Interp) held() string {
	h := ""
	for _, ls := range in.locks {
		if ls.writer {
			return "w"
		}
		if ls.readers > 0 {
			h = "r"
		}
	}
	return h
}

func (in *Interp) lockOp(p Ptr, op string) {
	if p.c == nil {
		in.goPanic("nil RWMutex")
	}
	ls := in.locks[p.c]
	if ls == nil {
		ls = &lockState{}
		in.locks[p.c] = ls
	}
	bad := ""
	switch op {
	case "Lock":
		if ls.writer || ls.readers > 0 {
			bad = "Lock while already held (self-deadlock)"
		}
		ls.writer = true
	case "Unlock":
		if !ls.writer {
			bad = "Unlock of unlocked RWMutex"
		}
		ls.writer = false
	case "RLock":
		if ls.writer {
			bad = "RLock while write-locked (self-deadlock)"
		}
		if ls.readers > 0 {
			bad = "recursive RLock (deadlocks with a waiting writer)"
		}
		ls.readers++
	case "RUnlock":
		if ls.readers == 0 {
			bad = "RUnlock of unlocked RWMutex"
		}
		ls.readers--
	}
	if in.track != nil {
		in.track.events = append(in.track.events, lockEvent{Kind: op})
		if bad != "" {
			in.track.violations = append(in.track.violations, bad+" at "+in.where())
		}
	}
	if bad != "" && (op == "Unlock" || op == "RUnlock") {
		in.goPanic("sync: %s", bad)
	}
}

func (in *Interp) noteRead(c *Cell) {
	if in.track != nil && c.id <= in.track.cellMark {
		in.track.events = append(in.track.events, lockEvent{Kind: "R", Loc: fmt.Sprintf("c%d", c.id), Held: in.held()})
	}
}

func (in *Interp) noteWrite(c *Cell) {
	if in.track != nil && c.id <= in.track.cellMark {
		in.track.events = append(in.track.events, lockEvent{Kind: "W", Loc: fmt.Sprintf("c%d", c.id), Held: in.held()})
	}
}

func (in *Interp) noteMapRead(m *MapObj) {
	if in.track != nil && m != nil && m.id <= in.track.mapMark {
		in.track.events = append(in.track.events, lockEvent{Kind: "R", Loc: fmt.Sprintf("m%d", m.id), Held: in.held()})
	}
}

func (in *Interp) noteMapWrite(m *MapObj) {
	if in.track != nil && m != nil && m.id <= in.track.mapMark {
		in.track.events = append(in.track.events, lockEvent{Kind: "W", Loc: fmt.Sprintf("m%d", m.id), Held: in.held()})
	}
}

func (in *Interp) trackStart(name string) {
	in.track = &trackState{name: name, cellMark: in.cellCount, mapMark: in.mapIDs}
}

func (in *Interp) trackStop() {
	if in.track == nil {
		return
	}
	t := in.track
	in.track = nil
	// lock must be released
	for _, ls := range in.locks {
		if ls.writer || ls.readers > 0 {
			t.violations = append(t.violations, "lock still held at return")
		}
	}
	in.tracks = append(in.tracks, t)
}

// own snapshots the backing store of a caller-owned slice (including spare capacity).
func (in *Interp) own(v Value, tag string) {
	if iv, isIface := v.(Iface); isIface {
		v = iv.v
	}
	s, ok := v.(Slice)
	if !ok || s.arr == nil {
		return
	}
	r := &ownRec{tag: tag}
	if s.hview {
		r.cells = append(r.cells, s.arr)
		r.vals = append(r.vals, s.arr.v)
	} else {
		for i := s.off; i < s.off+s.cap && i < len(s.arr.kids); i++ {
			c := s.arr.kids[i]
			r.cells = append(r.cells, c)
			r.vals = append(r.vals, in.load(c))
		}
	}
	in.owned = append(in.owned, r)
}

func (in *Interp) checkOwned(id string) {
	for _, r := range in.owned {
		for i, c := range r.cells {
			eq := in.equal(in.load(c), r.vals[i])
			in.assert(eq, fmt.Sprintf("%s:%s[%d]", id, r.tag, i))
		}
	}
}
