package main

// C12: lock-discipline summaries per method path + SMT schedule encoding for method pairs.

import (
	"encoding/json"
	"fmt"
	"os"
	"os/exec"
	"path/filepath"
	"sort"
	"strings"
	"time"

	"golang.org/x/tools/go/ssa"
)

type c12Access struct {
	Loc   string
	Write bool
	Held  string // "", "r", "w"
}

type c12Method struct {
	Index       int
	Name        string
	Paths       int
	Accesses    map[c12Access]bool
	Intra       []string // lock-discipline violations found on single paths
	MultiWrite  bool     // some path performs >= 2 guarded writes (a reader in between sees a half-applied state)
	WriteHeld   map[string]bool
	Vector      []ReplayVal
	Params      map[string]int
	AccessVec   map[c12Access][]ReplayVal // inputs of a path that performs the access
	AccessPar   map[c12Access]map[string]int
	IntraVec    map[string][]ReplayVal
	IntraPar    map[string]map[string]int
	intraStrong map[string]bool
}

type c12Finding struct {
	accA    c12Access
	intra   string
	Kind    string `json:"kind"` // race, atomicity, discipline
	A, B    int
	Loc     string `json:"loc"`
	Detail  string `json:"detail"`
	Model   string `json:"model,omitempty"`
	Repro   string `json:"native,omitempty"`
	ReplayF string `json:"replay,omitempty"`
}

func summarizeTracks(m *c12Method, tracks []*trackState) {
	for _, t := range tracks {
		m.Paths++
		for _, v := range t.violations {
			if t.vector != nil && (m.IntraVec[v] == nil || (t.storeSplit && strings.Contains(v, "critical sections") && !m.intraStrong[v])) {
				m.IntraVec[v] = t.vector
				m.IntraPar[v] = t.params
				if m.intraStrong == nil {
					m.intraStrong = map[string]bool{}
				}
				m.intraStrong[v] = t.storeSplit
			}
			dup := false
			for _, x := range m.Intra {
				if x == v {
					dup = true
				}
			}
			if !dup {
				m.Intra = append(m.Intra, v)
			}
		}
		writes := 0
		for _, e := range t.events {
			switch e.Kind {
			case "R", "W":
				ac := c12Access{e.Loc, e.Kind == "W", e.Held}
				m.Accesses[ac] = true
				if m.AccessVec[ac] == nil && t.vector != nil {
					m.AccessVec[ac] = t.vector
					m.AccessPar[ac] = t.params
				}
				if e.Kind == "W" {
					writes++
					m.WriteHeld[e.Held] = true
				}
			}
		}
		if writes >= 2 {
			m.MultiWrite = true
		}
	}
}

// c12Pairs issues the schedule queries for the ordered pair (A,B): timestamps are Int variables.
func c12Pairs(z *Solver, A, B *c12Method, queries *int, solverTime *time.Duration) []c12Finding {
	var out []c12Finding
	ask := func(smt string) (bool, string) {
		*queries++
		t0 := time.Now()
		z.send("(push 1)\n" + smt + "(check-sat)\n(echo \"" + marker + "\")\n")
		lines, _ := z.readUntilMarker()
		sat := false
		for _, l := range lines {
			if l == "sat" {
				sat = true
			}
		}
		model := ""
		if sat {
			z.send("(get-value (acqA ta relA acqB tb relB))\n(echo \"" + marker + "\")\n")
			ml, _ := z.readUntilMarker()
			model = strings.Join(ml, " ")
		}
		z.send("(pop 1)\n")
		*solverTime += time.Since(t0)
		return sat, model
	}
	section := func(side string, held string) string {
		if held == "" {
			return ""
		}
		return fmt.Sprintf("(assert (< acq%s t%s))(assert (< t%s rel%s))\n", side, strings.ToLower(side), strings.ToLower(side), side)
	}
	seen := map[string]bool{}
	for a := range A.Accesses {
		for b := range B.Accesses {
			if a.Loc != b.Loc || !(a.Write || b.Write) {
				continue
			}
			key := fmt.Sprintf("%v|%v", a, b)
			if seen[key] {
				continue
			}
			seen[key] = true
			var sb strings.Builder
			sb.WriteString(section("A", a.Held))
			sb.WriteString(section("B", b.Held))
			excl := a.Held != "" && b.Held != "" && (a.Held == "w" || b.Held == "w")
			if excl {
				// RWMutex: a write section overlaps no other section; the release/acquire pair is a happens-before edge
				sb.WriteString("(assert (or (< relA acqB) (< relB acqA)))\n")
				// race query: neither access happens-before the other
				sb.WriteString("(assert (not (< relA acqB)))(assert (not (< relB acqA)))\n")
			}
			sat, model := ask(sb.String())
			if sat {
				out = append(out, c12Finding{accA: a, Kind: "race", A: A.Index, B: B.Index, Loc: a.Loc,
					Detail: fmt.Sprintf("%s %s %s (lock: %q) unordered with %s %s %s (lock: %q)", A.Name, rw(a.Write), a.Loc, a.Held, B.Name, rw(b.Write), b.Loc, b.Held), Model: model})
			}
		}
	}
	// atomicity: a guarded read of B strictly between two guarded writes of one call of A
	if A.MultiWrite {
		for b := range B.Accesses {
			if b.Write {
				continue
			}
			// only reads of a location that A writes observe A's half-applied state
			writesIt := false
			var wacc c12Access
			for a := range A.Accesses {
				if a.Write && a.Loc == b.Loc {
					writesIt = true
					wacc = a
				}
			}
			if !writesIt {
				continue
			}
			for held := range A.WriteHeld {
				key := fmt.Sprintf("atom|%s|%v", held, b)
				if seen[key] {
					continue
				}
				seen[key] = true
				var sb strings.Builder
				sb.WriteString("(declare-const w1 Int)(declare-const w2 Int)\n(assert (< w1 tb))(assert (< tb w2))\n")
				if held != "" {
					sb.WriteString("(assert (< acqA w1))(assert (< w2 relA))\n")
				}
				sb.WriteString(section("B", b.Held))
				if held != "" && b.Held != "" && (held == "w" || b.Held == "w") {
					sb.WriteString("(assert (or (< relA acqB) (< relB acqA)))\n")
				}
				sat, model := ask(sb.String())
				if sat {
					out = append(out, c12Finding{accA: wacc, Kind: "atomicity", A: A.Index, B: B.Index, Loc: b.Loc,
						Detail: fmt.Sprintf("%s reads %s (lock: %q) between two guarded writes of one %s call (writes under lock %q)", B.Name, b.Loc, b.Held, A.Name, held), Model: model})
				}
			}
		}
	}
	return out
}

func rw(w bool) string {
	if w {
		return "writes"
	}
	return "reads"
}

// buildRaceBinary compiles the native replay test binary with the race detector.
func buildRaceBinary(pkg *ssa.Package, files []string) (string, error) {
	od := outDir()
	tmpl, err := os.ReadFile(filepath.Join(verifRoot, "harness", "replay_main_test.go.tmpl"))
	if err != nil {
		return "", err
	}
	var reg strings.Builder
	for _, n := range harnessNames(pkg) {
		fmt.Fprintf(&reg, "\t%q: %s,\n", n, n)
	}
	mainFile := filepath.Join(od, "replay_main_c12race_test.go")
	os.WriteFile(mainFile, []byte(strings.Replace(string(tmpl), "\t//REGISTRY//\n", reg.String(), 1)), 0o644)
	ov := map[string]map[string]string{"Replace": {}}
	for _, f := range files {
		ov["Replace"][filepath.Join(repoDir, "zz_verif_"+filepath.Base(f))] = f
	}
	ov["Replace"][filepath.Join(repoDir, "zz_verif_intrinsics_native.go")] = filepath.Join(verifRoot, "harness", "intrinsics_native.go")
	ov["Replace"][filepath.Join(repoDir, "zz_verif_replay_main_test.go")] = mainFile
	ov["Replace"][filepath.Join(repoDir, "zz_verif_c12race_test.go")] = filepath.Join(verifRoot, "harness", "c12race_test.go.txt")
	ob, _ := json.Marshal(ov)
	ovFile := filepath.Join(od, "overlay_c12race.json")
	os.WriteFile(ovFile, ob, 0o644)
	bin := filepath.Join(od, "replay_c12race.test")
	cmd := exec.Command("go", "test", "-c", "-race", "-vet=off", "-tags", "verif verifreplay", "-overlay", ovFile, "-o", bin, ".")
	cmd.Dir = repoDir
	cmd.Env = append(os.Environ(), "GOFLAGS=-mod=mod", "GOPROXY=off", "GOSUMDB=off", "GOTOOLCHAIN=local", "CGO_ENABLED=1")
	out, err := cmd.CombinedOutput()
	if err != nil {
		return "", fmt.Errorf("race replay build failed: %v\n%s", err, truncate(string(out), 1500))
	}
	return bin, nil
}

// runRacePair runs methods a and b concurrently on one instance under the race detector.
func runRacePair(bin, vecFile string, a, b int) string {
	test := "^TestVerifC12Pair$"
	if b == -2 {
		test = "^TestVerifC12Split$"
	}
	cmd := exec.Command(bin, "-test.run", test, "-test.timeout", "60s")
	cmd.Dir = repoDir
	cmd.Env = append(os.Environ(), "VERIF_C12_VECTOR="+vecFile, fmt.Sprintf("VERIF_C12_A=%d", a), fmt.Sprintf("VERIF_C12_B=%d", b), "GORACE=halt_on_error=1")
	out, _ := cmd.CombinedOutput()
	s := string(out)
	switch {
	case strings.Contains(s, "DATA RACE"):
		return "data race reported by the race detector"
	case strings.Contains(s, "C12-DEADLOCK"):
		return "deadlock (both goroutines blocked)"
	case strings.Contains(s, "C12-SPLIT"):
		return "lock released in the middle of the call (a waiting writer got it between two storage accesses)"
	case strings.Contains(s, "C12-HALF-APPLIED"):
		return "half-applied state observed"
	case strings.Contains(s, "C12-PAIR-OK"):
		return ""
	}
	return "inconclusive: " + truncate(s, 300)
}

func sortedAccesses(m *c12Method) []string {
	var out []string
	for a := range m.Accesses {
		out = append(out, fmt.Sprintf("%s %s lock=%q", rw(a.Write), a.Loc, a.Held))
	}
	sort.Strings(out)
	return out
}
