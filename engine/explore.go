package main

// Path exploration: decision-prefix DFS with re-execution, parallel workers.

import (
	"fmt"
	"os"
	"runtime"
	"runtime/debug"
	"sort"
	"sync"
	"time"

	"golang.org/x/tools/go/ssa"
)

type PathCtl struct {
	prefix  []int32
	pos     int
	trace   []int32
	pending [][]int32
}

func (p *PathCtl) next() (int32, bool) {
	if p.pos < len(p.prefix) {
		d := p.prefix[p.pos]
		p.pos++
		p.trace = append(p.trace, d)
		return d, true
	}
	return 0, false
}

func (p *PathCtl) replaying() bool { return p.pos < len(p.prefix) }

func (p *PathCtl) record(d int32) { p.trace = append(p.trace, d) }

func (p *PathCtl) fork(taken int32, alts ...int32) {
	for i := len(alts) - 1; i >= 0; i-- {
		alt := make([]int32, len(p.trace)+1)
		copy(alt, p.trace)
		alt[len(p.trace)] = alts[i]
		p.pending = append(p.pending, alt)
	}
	p.trace = append(p.trace, taken)
}

func (p *PathCtl) forkSeq(taken, alt []int32) {
	a := make([]int32, 0, len(p.trace)+len(alt))
	a = append(a, p.trace...)
	a = append(a, alt...)
	p.pending = append(p.pending, a)
	p.trace = append(p.trace, taken...)
}

// ReplayVal is one entry of a replay vector (JSON).
type ReplayVal struct {
	K string  `json:"k"`
	N string  `json:"n,omitempty"`
	V uint64  `json:"v,omitempty"`
	H *HashJS `json:"h,omitempty"`
}

type HashJS struct {
	Z bool    `json:"z,omitempty"`
	A *uint64 `json:"a,omitempty"`
	L *HashJS `json:"l,omitempty"`
	R *HashJS `json:"r,omitempty"`
}

func mvalToHashJS(m *MVal) *HashJS {
	switch m.Kind {
	case "atom":
		u := m.U
		return &HashJS{A: &u}
	case "node":
		return &HashJS{L: mvalToHashJS(m.L), R: mvalToHashJS(m.R)}
	}
	return &HashJS{Z: true}
}

type Violation struct {
	Harness  string            `json:"harness"`
	Kind     string            `json:"kind"` // assert, panic, unwind
	ID       string            `json:"id"`
	Vector   []ReplayVal       `json:"vector"`
	Params   map[string]int    `json:"params"`
	Decs     []int32           `json:"decisions,omitempty"`
	Obs      map[string]string `json:"obs,omitempty"`
	Property string            `json:"property,omitempty"`
	Tag      string            `json:"tag,omitempty"`
}

type Witness struct {
	Harness string         `json:"harness"`
	Vector  []ReplayVal    `json:"vector"`
	Reached []string       `json:"reached"`
	Obs     []ObsVal       `json:"obs"`
	Params  map[string]int `json:"params"`
}

type ObsVal struct {
	Tag string  `json:"tag"`
	U   uint64  `json:"u"`
	H   *HashJS `json:"h,omitempty"`
	IsH bool    `json:"ish,omitempty"`
}

type RunStats struct {
	Paths, Done, Infeasible, ViolPaths, PanicPaths, UnwindPaths, ErrorPaths int
	Forks, Pruned, UnknownFeas                                               int
	Asserts, Folded, AssertQueries, AssertUnknown                            int
	Steps                                                                    int64
	Solver                                                                   SolverStats
	Funcs                                                                    map[string]int
	Reached                                                                  map[string]int
	Errors                                                                   []string
	Violations                                                               []Violation
	Witnesses                                                                []Witness
	Samples                                                                  []string
	Wall                                                                     time.Duration
	Incomplete                                                               bool
	SortLong                                                                 int
	ParamsUsed                                                               map[string]int
	Tracks                                                                   []*trackState
	MaxDepth                                                                 int
	VioCounts                                                                map[string]int
	InfeasibleMsgs                                                           []string
}

// cpuSem bounds the number of paths executing at once across all concurrently running explorers.
var cpuSem = make(chan struct{}, runtime.NumCPU())

type Explorer struct {
	prog       *ssa.Program
	pkg        *ssa.Package
	harness    string
	params     map[string]int
	workers    int
	solver     string
	timeoutMs  int
	maxPaths   int
	deadline   time.Time
	unwind     int
	maxSteps   int64
	witnessN   int  // number of witnesses to collect
	stopFirst  bool // stop after first violation
	keepTracks bool
	maxViol    int
	solverLog  string
	mapReverse bool
	openKF     map[string]KnownFinding
	seed       int

	mu      sync.Mutex
	cond    *sync.Cond
	work    [][]int32
	busy    int
	stats   RunStats
	stopped bool
	seenVio map[string]int
}

func (ex *Explorer) Run() *RunStats {
	t0 := time.Now()
	ex.cond = sync.NewCond(&ex.mu)
	ex.work = [][]int32{{}}
	ex.stats.Funcs = map[string]int{}
	ex.stats.Reached = map[string]int{}
	ex.stats.Solver.ByKind = map[string][3]int{}
	ex.stats.ParamsUsed = map[string]int{}
	ex.seenVio = map[string]int{}
	if ex.maxViol == 0 {
		ex.maxViol = 3
	}
	var wg sync.WaitGroup
	for w := 0; w < ex.workers; w++ {
		wg.Add(1)
		go func(id int) {
			defer wg.Done()
			ex.worker(id)
		}(w)
	}
	wg.Wait()
	ex.stats.Wall = time.Since(t0)
	return &ex.stats
}

func (ex *Explorer) take() ([]int32, bool) {
	ex.mu.Lock()
	defer ex.mu.Unlock()
	for {
		if ex.stopped {
			return nil, false
		}
		if n := len(ex.work); n > 0 {
			j := ex.work[n-1]
			ex.work = ex.work[:n-1]
			ex.busy++
			return j, true
		}
		if ex.busy == 0 {
			ex.cond.Broadcast()
			return nil, false
		}
		ex.cond.Wait()
	}
}

func (ex *Explorer) worker(id int) {
	var tt *TT
	var sol *Solver
	fnInfos := map[*ssa.Function]*fnInfo{}
	n := 0
	defer func() {
		if sol != nil {
			ex.mergeSolver(sol)
			sol.Close()
		}
	}()
	for {
		job, ok := ex.take()
		if !ok {
			return
		}
		if tt == nil || n%1500 == 0 {
			if sol != nil {
				ex.mergeSolver(sol)
				sol.Close()
			}
			tt = NewTT()
			var err error
			sol, err = NewSolver(ex.solver, ex.timeoutMs)
			if err != nil {
				fmt.Fprintln(os.Stderr, "solver start failed:", err)
				os.Exit(2)
			}
			if ex.solverLog != "" && id == 0 {
				f, _ := os.Create(ex.solverLog)
				sol.log = f
			}
		}
		n++
		cpuSem <- struct{}{}
		pending := ex.runPath(tt, sol, fnInfos, job)
		<-cpuSem
		ex.mu.Lock()
		ex.busy--
		// push in reverse so that the first alternative is explored next (DFS)
		for i := len(pending) - 1; i >= 0; i-- {
			ex.work = append(ex.work, pending[i])
		}
		if ex.maxPaths > 0 && ex.stats.Paths >= ex.maxPaths {
			ex.stats.Incomplete = true
			ex.stopped = true
		}
		if !ex.deadline.IsZero() && time.Now().After(ex.deadline) {
			ex.stats.Incomplete = true
			ex.stopped = true
		}
		ex.cond.Broadcast()
		ex.mu.Unlock()
	}
}

func (ex *Explorer) mergeSolver(s *Solver) {
	ex.mu.Lock()
	defer ex.mu.Unlock()
	t := &ex.stats.Solver
	t.Sat += s.stats.Sat
	t.Unsat += s.stats.Unsat
	t.Unknown += s.stats.Unknown
	t.Errors += s.stats.Errors
	t.Time += s.stats.Time
	for k, v := range s.stats.ByKind {
		o := t.ByKind[k]
		o[0] += v[0]
		o[1] += v[1]
		o[2] += v[2]
		t.ByKind[k] = o
	}
	s.stats = SolverStats{ByKind: map[string][3]int{}}
}

func (ex *Explorer) inputVars(in *Interp) []*Term {
	var vs []*Term
	for _, r := range in.inputs {
		if r.T != nil {
			vs = append(vs, r.T)
		}
	}
	return vs
}

func (ex *Explorer) vector(in *Interp, vals []*MVal) []ReplayVal {
	var out []ReplayVal
	k := 0
	for _, r := range in.inputs {
		if r.T == nil {
			out = append(out, ReplayVal{K: "choose", N: r.Name, V: uint64(r.C)})
			continue
		}
		var mv *MVal
		if vals != nil && k < len(vals) {
			mv = vals[k]
		}
		k++
		rv := ReplayVal{K: r.Kind, N: r.Name}
		if mv != nil {
			switch r.Kind {
			case "hash":
				rv.H = mvalToHashJS(mv)
			default:
				rv.V = mv.U
			}
		} else if r.Kind == "hash" {
			rv.H = &HashJS{Z: true}
		}
		out = append(out, rv)
	}
	return out
}

func (ex *Explorer) runPath(tt *TT, sol *Solver, fnInfos map[*ssa.Function]*fnInfo, prefix []int32) (pending [][]int32) {
	tt.distinct = map[[2]int]bool{}
	in := &Interp{prog: ex.prog, pkg: ex.pkg, tt: tt, sol: sol,
		ctl:     &PathCtl{prefix: prefix},
		globals: map[*ssa.Global]*Cell{}, fnInfos: fnInfos,
		params: ex.params, maxSteps: ex.maxSteps, unwind: ex.unwind,
		funcsSeen: map[*ssa.Function]int{}, locks: map[*Cell]*lockState{},
		paramsUsed: map[string]int{}, mapReverse: ex.mapReverse, openKF: ex.openKF,
	}
	var vios []Violation
	inconclusive := 0
	in.onViolation = func(in *Interp, kind, id string, neg *Term) {
		if in.ctl.replaying() {
			// this obligation was already examined when the prefix was first run
			return
		}
		vars := ex.inputVars(in)
		var res Result
		var vals []*MVal
		if neg != nil {
			if neg.IsFalse() {
				return
			}
			ex.mu.Lock()
			ex.stats.AssertQueries++
			ex.mu.Unlock()
			res, vals = sol.Model(in.pc, "assert", vars, neg)
		} else {
			res, vals = sol.Model(in.pc, kind, vars)
		}
		switch res {
		case RUnsat:
			return
		case RUnknown:
			inconclusive++
			return
		}
		v := Violation{Harness: ex.harness, Kind: kind, ID: id, Vector: ex.vector(in, vals), Params: in.paramsUsed,
			Decs: append([]int32(nil), in.ctl.trace...), Tag: in.kfTag}
		vios = append(vios, v)
	}
	status, msg := "done", ""
	func() {
		defer func() {
			if r := recover(); r != nil {
				if pe, ok := r.(pathEnd); ok {
					status, msg = pe.status, pe.msg
					return
				}
				status, msg = "error", fmt.Sprintf("engine panic: %v at %s\n%s", r, in.where(), debug.Stack())
			}
		}()
		fn := ex.pkg.Func(ex.harness)
		if fn == nil {
			in.end("error", "harness %s not found", ex.harness)
		}
		in.callFunc(fn, nil, nil)
	}()
	// vacuity guard: the path condition of every completed path is checked satisfiable by the solver
	// (assumptions about leaf-id distinctness are not checked one by one, see leafDistinctness)
	if status == "done" && len(in.pc) > 0 {
		if sol.Check(in.pc, "pathsat") == RUnsat {
			status, msg = "infeasible", "path condition unsatisfiable at the end of the path"
		}
	}
	// witness for completed paths
	var wit *Witness
	if status == "done" && ex.witnessN > 0 {
		ex.mu.Lock()
		need := len(ex.stats.Witnesses) < ex.witnessN
		ex.mu.Unlock()
		if need {
			vars := ex.inputVars(in)
			all := append([]*Term(nil), vars...)
			for _, o := range in.obs {
				all = append(all, o.T)
			}
			res, vals := sol.Model(in.pc, "witness", all)
			if res == RSat {
				w := &Witness{Harness: ex.harness, Vector: ex.vector(in, vals[:len(vars)]), Reached: in.reached, Params: in.paramsUsed}
				for i, o := range in.obs {
					mv := vals[len(vars)+i]
					ov := ObsVal{Tag: o.Tag, U: mv.U}
					if o.T.sort.K == KHash {
						ov.IsH = true
						ov.H = mvalToHashJS(mv)
					}
					w.Obs = append(w.Obs, ov)
				}
				wit = w
			}
		}
	}
	if ex.keepTracks && status == "done" && len(in.tracks) > 0 {
		vars := ex.inputVars(in)
		if res, vals := sol.Model(in.pc, "witness", vars); res == RSat {
			vec := ex.vector(in, vals)
			for _, t := range in.tracks {
				t.vector = vec
				t.params = in.paramsUsed
			}
		}
	}
	ex.mu.Lock()
	defer ex.mu.Unlock()
	st := &ex.stats
	st.Paths++
	st.Steps += in.steps
	st.Forks += in.forks
	st.Pruned += in.pruned
	st.UnknownFeas += in.unknownFeas
	st.Asserts += in.asserts
	st.Folded += in.folded
	st.AssertUnknown += inconclusive
	st.SortLong += in.sortLong
	if len(in.ctl.trace) > st.MaxDepth {
		st.MaxDepth = len(in.ctl.trace)
	}
	for k, v := range in.paramsUsed {
		st.ParamsUsed[k] = v
	}
	for f, c := range in.funcsSeen {
		st.Funcs[f.String()] += c
	}
	for _, r := range in.reached {
		st.Reached[r]++
	}
	if ex.keepTracks {
		st.Tracks = append(st.Tracks, in.tracks...)
	}
	switch status {
	case "done":
		st.Done++
		if wit != nil && len(st.Witnesses) < ex.witnessN {
			st.Witnesses = append(st.Witnesses, *wit)
		}
		if len(st.Samples) < 5 {
			st.Samples = append(st.Samples, fmt.Sprintf("path decisions=%v inputs=%d pc=%d reached=%v", compactDecs(in.ctl.trace), len(in.inputs), len(in.pc), in.reached))
		}
	case "infeasible":
		st.Infeasible++
		if len(st.InfeasibleMsgs) < 3 {
			st.InfeasibleMsgs = append(st.InfeasibleMsgs, msg+" @ "+in.where())
		}
	case "violation":
		st.ViolPaths++
	case "panic":
		st.PanicPaths++
	case "unwind":
		st.UnwindPaths++
	default:
		st.ErrorPaths++
		if len(st.Errors) < 10 {
			st.Errors = append(st.Errors, status+": "+msg)
		}
	}
	for _, v := range vios {
		key := v.Kind + "|" + v.ID + "|" + v.Tag
		ex.seenVio[key]++
		if st.VioCounts == nil {
			st.VioCounts = map[string]int{}
		}
		st.VioCounts[key]++
		if ex.seenVio[key] <= ex.maxViol {
			st.Violations = append(st.Violations, v)
		}
	}
	if len(vios) > 0 && ex.stopFirst {
		ex.stopped = true
	}
	return in.ctl.pending
}

func compactDecs(d []int32) string {
	if len(d) > 40 {
		return fmt.Sprintf("%v...(%d)", d[:40], len(d))
	}
	return fmt.Sprint(d)
}

func sortedKeys(m map[string]int) []string {
	ks := make([]string, 0, len(m))
	for k := range m {
		ks = append(ks, k)
	}
	sort.Strings(ks)
	return ks
}
