package main

// Builtins, maps, intercepted functions (stubs) and harness intrinsics.

import (
	"fmt"
	"go/types"
	"strings"

	"golang.org/x/tools/go/ssa"
)

// ---- maps ----

func (in *Interp) mapFind(m *MapObj, k *Term) int {
	if m == nil {
		return -1
	}
	for i, mk := range m.keys {
		if !m.alive[i] {
			continue
		}
		c := in.tt.Eq(k, mk)
		if c.IsFalse() {
			continue
		}
		if in.branch(c, "mapkey") {
			return i
		}
	}
	return -1
}

func (in *Interp) mapGet(m *MapObj, k *Term, vt types.Type) (Value, bool) {
	in.noteMapRead(m)
	i := in.mapFind(m, k)
	if i < 0 {
		return in.zero(vt), false
	}
	return m.vals[i], true
}

func (in *Interp) mapSet(m *MapObj, k *Term, v Value) {
	in.noteMapWrite(m)
	i := in.mapFind(m, k)
	if i >= 0 {
		m.vals[i] = v
		return
	}
	m.keys = append(m.keys, k)
	m.vals = append(m.vals, v)
	m.alive = append(m.alive, true)
	m.n++
}

func (in *Interp) mapDelete(m *MapObj, k *Term) {
	if m == nil {
		return
	}
	in.noteMapWrite(m)
	i := in.mapFind(m, k)
	if i >= 0 {
		m.alive[i] = false
		m.n--
	}
}

func (in *Interp) mapNext(it *MapIter) Value {
	m := it.m
	in.noteMapRead(m)
	kz := Value(in.tt.BV(64, 0))
	if m != nil {
		kz = in.zero(m.kt)
		for it.pos < it.max {
			i := it.pos
			if in.mapReverse {
				i = it.max - 1 - it.pos
			}
			it.pos++
			if m.alive[i] {
				return Tuple{in.tt.True, m.keys[i], m.vals[i]}
			}
		}
		return Tuple{in.tt.False, kz, in.zero(m.vt)}
	}
	return Tuple{in.tt.False, kz, kz}
}

// ---- builtins ----

func (in *Interp) builtin(b *ssa.Builtin, args []Value, site ssa.Instruction) Value {
	tt := in.tt
	switch b.Name() {
	case "len":
		switch x := args[0].(type) {
		case Slice:
			return tt.BV(64, uint64(x.len))
		case *MapObj:
			in.noteMapRead(x)
			if x == nil {
				return tt.BV(64, 0)
			}
			return tt.BV(64, uint64(x.n))
		case Str:
			if x.known {
				return tt.BV(64, uint64(len(x.s)))
			}
			return tt.BV(64, 0)
		case Ptr:
			if x.c != nil {
				if isHashArray(x.c.typ) {
					return tt.BV(64, uint64(x.c.typ.Underlying().(*types.Array).Len()))
				}
				return tt.BV(64, uint64(len(x.c.kids)))
			}
		case *Array:
			return tt.BV(64, uint64(len(x.e)))
		case *Term:
			if x.sort.K == KHash {
				return tt.BV(64, 32)
			}
		}
		in.end("error", "len of %T", args[0])
	case "cap":
		switch x := args[0].(type) {
		case Slice:
			return tt.BV(64, uint64(x.cap))
		}
		in.end("error", "cap of %T", args[0])
	case "append":
		s := args[0].(Slice)
		var add Slice
		switch a := args[1].(type) {
		case Slice:
			add = a
		case Str:
			in.end("error", "append of string")
		}
		if add.len == 0 {
			return s
		}
		// read the new elements first (they may alias the destination)
		vals := make([]Value, add.len)
		for i := range vals {
			vals[i] = in.sliceGet(add, i)
		}
		n := s.len + add.len
		if n <= s.cap && s.arr != nil {
			r := Slice{arr: s.arr, off: s.off, len: n, cap: s.cap, hview: s.hview}
			for i, v := range vals {
				in.sliceSet(r, s.len+i, v)
			}
			return r
		}
		et := site.(ssa.Value).Type().Underlying().(*types.Slice).Elem()
		nc := growCap(s.cap, n, in.sizeof(et))
		r := Slice{arr: in.newArrayCell(et, nc), off: 0, len: n, cap: nc}
		for i := 0; i < s.len; i++ {
			in.store(r.arr.kids[i], in.sliceGet(s, i))
		}
		for i, v := range vals {
			in.store(r.arr.kids[s.len+i], v)
		}
		return r
	case "copy":
		dst := args[0].(Slice)
		var n int
		switch src := args[1].(type) {
		case Slice:
			n = dst.len
			if src.len < n {
				n = src.len
			}
			vals := make([]Value, n)
			for i := 0; i < n; i++ {
				vals[i] = in.sliceGet(src, i)
			}
			if dst.hview && n > 0 {
				h := dst.arr.v.(*Term)
				bs := in.hashBytes(h, 32)
				for i := 0; i < n; i++ {
					bs[dst.off+i] = vals[i].(*Term)
				}
				dst.arr.v = in.tt.HFromBytes(bs)
				in.noteWrite(dst.arr)
			} else {
				for i := 0; i < n; i++ {
					in.sliceSet(dst, i, vals[i])
				}
			}
		case Str:
			in.end("error", "copy from string")
		}
		return tt.BV(64, uint64(n))
	case "delete":
		in.mapDelete(args[0].(*MapObj), args[1].(*Term))
		return nil
	case "print", "println":
		return nil
	case "min", "max":
		r := args[0].(*Term)
		for _, a := range args[1:] {
			y := a.(*Term)
			var c *Term
			if b.Name() == "min" {
				c = tt.Ult(y, r)
			} else {
				c = tt.Ult(r, y)
			}
			r = tt.Ite(c, y, r)
		}
		return r
	case "panic":
		in.goPanic("explicit panic")
	case "recover":
		return Iface{}
	}
	in.end("error", "unsupported builtin %s", b.Name())
	return nil
}

func (in *Interp) sizeof(t types.Type) int {
	switch u := t.Underlying().(type) {
	case *types.Basic:
		if w, _, ok := basicWidth(u); ok {
			return w / 8
		}
		if u.Info()&types.IsBoolean != 0 {
			return 1
		}
		if u.Info()&types.IsString != 0 {
			return 16
		}
		return 8
	case *types.Pointer, *types.Map, *types.Signature, *types.Chan:
		return 8
	case *types.Slice:
		return 24
	case *types.Interface:
		return 16
	case *types.Array:
		return int(u.Len()) * in.sizeof(u.Elem())
	case *types.Struct:
		// natural alignment, good enough for the element sizes in this code base
		off, maxal := 0, 1
		for i := 0; i < u.NumFields(); i++ {
			sz := in.sizeof(u.Field(i).Type())
			al := in.alignof(u.Field(i).Type())
			if al > maxal {
				maxal = al
			}
			off = (off + al - 1) / al * al
			off += sz
		}
		return (off + maxal - 1) / maxal * maxal
	}
	return 8
}

func (in *Interp) alignof(t types.Type) int {
	switch u := t.Underlying().(type) {
	case *types.Basic:
		s := in.sizeof(t)
		if s > 8 {
			return 8
		}
		if s == 0 {
			return 1
		}
		return s
	case *types.Array:
		return in.alignof(u.Elem())
	case *types.Struct:
		m := 1
		for i := 0; i < u.NumFields(); i++ {
			if a := in.alignof(u.Field(i).Type()); a > m {
				m = a
			}
		}
		return m
	}
	return 8
}

var sizeClasses = []int{0, 8, 16, 24, 32, 48, 64, 80, 96, 112, 128, 144, 160, 176, 192, 208, 224, 240, 256, 288, 320, 352, 384, 416, 448, 480, 512, 576, 640, 704, 768, 896, 1024, 1152, 1280, 1408, 1536, 1792, 2048, 2304, 2688, 3072, 3200, 3456, 4096, 4864, 5376, 6144, 6528, 6784, 6912, 8192, 9472, 9728, 10240, 10880, 12288, 13568, 14336, 16384, 18432, 19072, 20480, 21760, 24576, 27264, 28672, 32768}

func roundupsize(n int) int {
	for _, c := range sizeClasses {
		if c >= n {
			return c
		}
	}
	return (n + 8191) / 8192 * 8192
}

// growCap follows runtime.growslice (Go 1.20+).
func growCap(oldCap, newLen, elemSize int) int {
	newcap := oldCap
	doublecap := newcap + newcap
	if newLen > doublecap {
		newcap = newLen
	} else {
		const threshold = 256
		if oldCap < threshold {
			newcap = doublecap
		} else {
			for 0 < newcap && newcap < newLen {
				newcap += (newcap + 3*threshold) / 4
			}
			if newcap <= 0 {
				newcap = newLen
			}
		}
	}
	if elemSize == 0 {
		return newcap
	}
	mem := roundupsize(newcap * elemSize)
	return mem / elemSize
}

// ---- intercepts ----

type intercept func(in *Interp, fn *ssa.Function, args []Value) Value

var intercepts map[string]intercept

const upkg = "github.com/utreexo/utreexo"

func init() {
	opaqueErr := func(in *Interp, fn *ssa.Function, args []Value) Value {
		in.errTag++
		return Err{nonNil: in.tt.True, tag: fmt.Sprintf("e%d", in.errTag)}
	}
	opaqueStr := func(in *Interp, fn *ssa.Function, args []Value) Value { return Str{"<opaque>", false} }
	nop := func(in *Interp, fn *ssa.Function, args []Value) Value { return nil }
	intercepts = map[string]intercept{
		upkg + ".parentHash": func(in *Interp, fn *ssa.Function, args []Value) Value {
			return in.tt.HNode(args[0].(*Term), args[1].(*Term))
		},
		upkg + ".refParent": func(in *Interp, fn *ssa.Function, args []Value) Value {
			return in.tt.HNode(args[0].(*Term), args[1].(*Term))
		},
		"(" + upkg + ".Hash).mini": func(in *Interp, fn *ssa.Function, args []Value) Value { return args[0] },
		"math/bits.Len64": func(in *Interp, fn *ssa.Function, args []Value) Value {
			return in.tt.Len64(args[0].(*Term))
		},
		"math/bits.Len": func(in *Interp, fn *ssa.Function, args []Value) Value {
			return in.tt.Len64(args[0].(*Term))
		},
		"math/bits.Len32": func(in *Interp, fn *ssa.Function, args []Value) Value {
			return in.tt.Len64(in.tt.Zext(args[0].(*Term), 64))
		},
		"math/bits.Len16": func(in *Interp, fn *ssa.Function, args []Value) Value {
			return in.tt.Len64(in.tt.Zext(args[0].(*Term), 64))
		},
		"math/bits.Len8": func(in *Interp, fn *ssa.Function, args []Value) Value {
			return in.tt.Len64(in.tt.Zext(args[0].(*Term), 64))
		},
		"math/bits.LeadingZeros64": func(in *Interp, fn *ssa.Function, args []Value) Value {
			return in.tt.Sub(in.tt.BV(64, 64), in.tt.Len64(args[0].(*Term)))
		},
		"math/bits.TrailingZeros64": func(in *Interp, fn *ssa.Function, args []Value) Value {
			x := args[0].(*Term)
			// x & -x isolates the lowest set bit; its Len64 - 1 is the count (64 for x == 0)
			low := in.tt.BAnd(x, in.tt.Neg(x))
			r := in.tt.Sub(in.tt.Len64(low), in.tt.BV(64, 1))
			return in.tt.Ite(in.tt.Eq(x, in.tt.BV(64, 0)), in.tt.BV(64, 64), r)
		},
		"math/bits.OnesCount": func(in *Interp, fn *ssa.Function, args []Value) Value {
			return in.tt.OnesCount64(args[0].(*Term))
		},
		"math/bits.OnesCount64": func(in *Interp, fn *ssa.Function, args []Value) Value {
			return in.tt.OnesCount64(args[0].(*Term))
		},
		"fmt.Errorf":                        opaqueErr,
		"errors.New":                        opaqueErr,
		"fmt.Sprintf":                       opaqueStr,
		"fmt.Sprint":                        opaqueStr,
		"encoding/hex.EncodeToString":       opaqueStr,
		upkg + ".printHashes":               opaqueStr,
		upkg + ".printLeaves":               opaqueStr,
		upkg + ".printPolNodes":             opaqueStr,
		upkg + ".nodeMapToString":           opaqueStr,
		upkg + ".polNodeAndPosToString":     opaqueStr,
		"(" + upkg + ".Hash).String":        opaqueStr,
		"(" + upkg + ".Leaf).String":        opaqueStr,
		"(*" + upkg + ".polNode).String":    opaqueStr,
		"(*" + upkg + ".Proof).String":      opaqueStr,
		"(" + upkg + ".hashAndPos).String":  opaqueStr,
		"(*" + upkg + ".Stump).String":      opaqueStr,
		"(*strings.Builder).WriteString":    func(in *Interp, fn *ssa.Function, args []Value) Value { return Tuple{in.tt.BV(64, 0), Err{nonNil: in.tt.False}} },
		"(*strings.Builder).String":         opaqueStr,
		"(*sync.RWMutex).Lock":              func(in *Interp, fn *ssa.Function, args []Value) Value { in.lockOp(args[0].(Ptr), "Lock"); return nil },
		"(*sync.RWMutex).Unlock":            func(in *Interp, fn *ssa.Function, args []Value) Value { in.lockOp(args[0].(Ptr), "Unlock"); return nil },
		"(*sync.RWMutex).RLock":             func(in *Interp, fn *ssa.Function, args []Value) Value { in.lockOp(args[0].(Ptr), "RLock"); return nil },
		"(*sync.RWMutex).RUnlock":           func(in *Interp, fn *ssa.Function, args []Value) Value { in.lockOp(args[0].(Ptr), "RUnlock"); return nil },
		"sort.Slice":                        sortSliceStub,
		upkg + ".verifPoint":                nop,
		upkg + ".verifNondetU64":            func(in *Interp, fn *ssa.Function, args []Value) Value { return in.nondet("u64", args[0], SBV(64)) },
		upkg + ".verifNondetU32":            func(in *Interp, fn *ssa.Function, args []Value) Value { return in.nondet("u32", args[0], SBV(32)) },
		upkg + ".verifNondetU8":             func(in *Interp, fn *ssa.Function, args []Value) Value { return in.nondet("u8", args[0], SBV(8)) },
		upkg + ".verifNondetInt":            func(in *Interp, fn *ssa.Function, args []Value) Value { return in.nondet("int", args[0], SBV(64)) },
		upkg + ".verifNondetBool":           func(in *Interp, fn *ssa.Function, args []Value) Value { return in.nondet("bool", args[0], SBool) },
		upkg + ".verifNondetHash":           func(in *Interp, fn *ssa.Function, args []Value) Value { return in.nondet("hash", args[0], SHash) },
		upkg + ".verifLeafHash": func(in *Interp, fn *ssa.Function, args []Value) Value {
			id := in.nondet("leaf", args[0], SBV(64)).(*Term)
			// keep honest leaf ids away from the reserved constant-pattern range
			in.addPC(in.tt.Ult(id, in.tt.BV(64, 1<<40)))
			return in.tt.HAtom(id)
		},
		upkg + ".verifAtom": func(in *Interp, fn *ssa.Function, args []Value) Value {
			return in.tt.HAtom(args[0].(*Term))
		},
		upkg + ".verifChoose": func(in *Interp, fn *ssa.Function, args []Value) Value {
			lo := in.concreteInt(args[1], "choose lo")
			hi := in.concreteInt(args[2], "choose hi")
			d := in.choose(hi - lo + 1)
			name := ""
			if s, ok := args[0].(Str); ok {
				name = s.s
			}
			in.inputs = append(in.inputs, InputRec{Kind: "choose", Name: name, C: lo + d})
			return in.tt.BV(64, uint64(lo+d))
		},
		upkg + ".verifParam": func(in *Interp, fn *ssa.Function, args []Value) Value {
			name := args[0].(Str).s
			def := in.concreteInt(args[1], "param default")
			if v, ok := in.params[name]; ok {
				def = v
			}
			in.paramsUsed[name] = def
			return in.tt.BV(64, uint64(def))
		},
		upkg + ".verifAssume": func(in *Interp, fn *ssa.Function, args []Value) Value {
			c := args[0].(*Term)
			if c.IsTrue() {
				return nil
			}
			if c.IsFalse() {
				in.end("infeasible", "assume(false)")
			}
			if in.ctl.replaying() || leafDistinctness(c) {
				in.addPC(c)
				return nil
			}
			if in.sol.Check(in.pc, "assume", c) == RUnsat {
				in.end("infeasible", "assumption unsatisfiable")
			}
			in.addPC(c)
			return nil
		},
		upkg + ".verifAssert": func(in *Interp, fn *ssa.Function, args []Value) Value {
			in.assert(args[0].(*Term), args[1].(Str).s)
			return nil
		},
		upkg + ".verifAssertKF": func(in *Interp, fn *ssa.Function, args []Value) Value {
			in.assertKF(args[0].(*Term), args[1].(Str).s, args[2].(Str).s, args[3].(*Term))
			return nil
		},
		upkg + ".verifReach": func(in *Interp, fn *ssa.Function, args []Value) Value {
			in.reached = append(in.reached, args[0].(Str).s)
			return nil
		},
		upkg + ".verifObserveU64": func(in *Interp, fn *ssa.Function, args []Value) Value {
			in.obs = append(in.obs, Obs{args[0].(Str).s, args[1].(*Term)})
			return nil
		},
		upkg + ".verifObserveHash": func(in *Interp, fn *ssa.Function, args []Value) Value {
			in.obs = append(in.obs, Obs{args[0].(Str).s, args[1].(*Term)})
			return nil
		},
		upkg + ".verifObserveBool": func(in *Interp, fn *ssa.Function, args []Value) Value {
			in.obs = append(in.obs, Obs{args[0].(Str).s, args[1].(*Term)})
			return nil
		},
		upkg + ".verifIteU64": func(in *Interp, fn *ssa.Function, args []Value) Value {
			return in.tt.Ite(args[0].(*Term), args[1].(*Term), args[2].(*Term))
		},
		upkg + ".verifIteHash": func(in *Interp, fn *ssa.Function, args []Value) Value {
			return in.tt.Ite(args[0].(*Term), args[1].(*Term), args[2].(*Term))
		},
		upkg + ".verifIteBool": func(in *Interp, fn *ssa.Function, args []Value) Value {
			return in.tt.Ite(args[0].(*Term), args[1].(*Term), args[2].(*Term))
		},
		upkg + ".verifUnwind": func(in *Interp, fn *ssa.Function, args []Value) Value {
			in.unwind = in.concreteInt(args[0], "unwind")
			return nil
		},
		upkg + ".verifConcretize": func(in *Interp, fn *ssa.Function, args []Value) Value {
			t := args[0].(*Term)
			return in.tt.BV(int(t.sort.W), in.concretize(t, "verifConcretize"))
		},
		upkg + ".verifIsSymbolic": func(in *Interp, fn *ssa.Function, args []Value) Value { return in.tt.True },
		upkg + ".verifOwn":        func(in *Interp, fn *ssa.Function, args []Value) Value { in.own(args[0], args[1].(Str).s); return nil },
		upkg + ".verifCheckOwned": func(in *Interp, fn *ssa.Function, args []Value) Value { in.checkOwned(args[0].(Str).s); return nil },
		upkg + ".verifTrackStart": func(in *Interp, fn *ssa.Function, args []Value) Value { in.trackStart(args[0].(Str).s); return nil },
		upkg + ".verifTrackStartObj": func(in *Interp, fn *ssa.Function, args []Value) Value {
			in.trackStartObj(args[0].(Str).s, args[1])
			return nil
		},
		upkg + ".verifTrackStop":  func(in *Interp, fn *ssa.Function, args []Value) Value { in.trackStop(); return nil },
		upkg + ".verifMapReverse": func(in *Interp, fn *ssa.Function, args []Value) Value {
			in.mapReverse = args[0].(*Term).IsTrue()
			return nil
		},
	}
}

func interceptByPkg(fn *ssa.Function) intercept {
	if fn.Pkg == nil {
		return nil
	}
	switch fn.Pkg.Pkg.Path() {
	case "fmt", "errors", "encoding/hex", "strings":
		rt := fn.Signature.Results()
		return func(in *Interp, f *ssa.Function, args []Value) Value {
			vals := make(Tuple, rt.Len())
			for i := range vals {
				t := rt.At(i).Type()
				if isErrorType(t) {
					in.errTag++
					vals[i] = Err{nonNil: in.tt.True, tag: fmt.Sprintf("e%d", in.errTag)}
				} else if b, ok := t.Underlying().(*types.Basic); ok && b.Info()&types.IsString != 0 {
					vals[i] = Str{"<opaque>", false}
				} else {
					vals[i] = in.zero(t)
				}
			}
			if len(vals) == 1 {
				return vals[0]
			}
			if len(vals) == 0 {
				return nil
			}
			return vals
		}
	}
	return nil
}

func (in *Interp) nondet(kind string, nameV Value, s Sort) Value {
	name := "x"
	if sv, ok := nameV.(Str); ok && sv.known {
		name = sv.s
	}
	clean := strings.Map(func(r rune) rune {
		if (r >= 'a' && r <= 'z') || (r >= 'A' && r <= 'Z') || (r >= '0' && r <= '9') || r == '_' {
			return r
		}
		return '_'
	}, name)
	v := in.fresh(kind+"_"+clean, s)
	in.inputs = append(in.inputs, InputRec{Kind: kind, Name: name, T: v})
	return v
}

// assert checks one property obligation on the current path.
func (in *Interp) assert(c *Term, id string) {
	in.asserts++
	if c.IsTrue() {
		in.folded++
		return
	}
	neg := in.tt.Not(c)
	if in.onViolation != nil {
		in.onViolation(in, "assert", id, neg)
	}
	// continue under the assertion (violations, if any, were recorded by the hook)
	if c.IsFalse() {
		in.end("violation", "assertion %s definitely false", id)
	}
	in.addPC(c)
}

// assertKF is assert with a carve-out for an open known finding: violations where pred holds are
// reported as the known finding (tag), violations where it does not hold are ordinary violations.
func (in *Interp) assertKF(c *Term, id, tag string, pred *Term) {
	if _, open := in.openKF[tag]; !open {
		in.assert(c, id)
		return
	}
	in.asserts++
	if c.IsTrue() {
		in.folded++
		return
	}
	neg := in.tt.Not(c)
	if in.onViolation != nil {
		in.onViolation(in, "assert", id, in.tt.And(neg, in.tt.Not(pred)))
		in.kfTag = tag
		in.onViolation(in, "known", id, in.tt.And(neg, pred))
		in.kfTag = ""
	}
	if c.IsFalse() {
		in.end("violation", "assertion %s definitely false", id)
	}
	in.addPC(c)
}

// sort.Slice(x, less): insertion sort with the caller's closure (exact for len <= 12 in Go 1.23).
func sortSliceStub(in *Interp, fn *ssa.Function, args []Value) Value {
	iv := args[0].(Iface)
	s := iv.v.(Slice)
	less := args[1]
	n := s.len
	if n > 12 {
		in.sortLong++
	}
	for i := 1; i < n; i++ {
		for j := i; j > 0; j-- {
			r := in.call(less, []Value{in.tt.BV(64, uint64(j)), in.tt.BV(64, uint64(j-1))}, nil).(*Term)
			if !in.branch(r, "sortless") {
				break
			}
			a, b := in.sliceGet(s, j), in.sliceGet(s, j-1)
			in.sliceSet(s, j, b)
			in.sliceSet(s, j-1, a)
		}
	}
	return nil
}

// leafDistinctness recognises "Atom(id1) != Atom(id2)" between leaf-id variables (or a variable and a
// constant).  Leaf ids range over 2^40 values and are only ever constrained by such disequalities, so
// the assumption is always satisfiable and needs no solver call.
func leafDistinctness(c *Term) bool {
	if c.op != ONot || c.args[0].op != OEq {
		return false
	}
	a, b := c.args[0].args[0], c.args[0].args[1]
	if a.sort.K == KHash {
		if a.op != OHAtom || b.op != OHAtom {
			return false
		}
		a, b = a.args[0], b.args[0]
	}
	isLeafVar := func(t *Term) bool { return t.op == OVar && strings.HasPrefix(t.name, "leaf_") }
	return (isLeafVar(a) && (isLeafVar(b) || b.IsConst())) || (isLeafVar(b) && a.IsConst())
}
