package main

// Solver driver: one persistent SMT solver process per worker, incremental
// (push/pop), terms sent as define-fun DAG nodes (global declarations).

import (
	"bufio"
	"fmt"
	"io"
	"os/exec"
	"strconv"
	"strings"
	"time"
)

type SolverStats struct {
	Sat, Unsat, Unknown, Errors int
	Time                        time.Duration
	ByKind                      map[string][3]int // kind -> sat, unsat, unknown
}

type Solver struct {
	name    string
	cmd     *exec.Cmd
	in      io.WriteCloser
	out     *bufio.Reader
	defined map[int]bool    // term ids with define-fun sent
	vars    map[string]bool // declared variables
	stack   []*Term         // asserted path-condition terms, one push level each
	stats   SolverStats
	log     io.Writer
	timeout int // ms
	buf     strings.Builder
}

const prelude = `(set-option :global-declarations true)
(declare-datatypes ((H 0)) (((Zero) (Atom (aid (_ BitVec 64))) (Node (nl H) (nr H)))))
(declare-fun hbyte (H Int) (_ BitVec 8))
(declare-fun hfrom ((_ BitVec 8) (_ BitVec 8) (_ BitVec 8) (_ BitVec 8) (_ BitVec 8) (_ BitVec 8) (_ BitVec 8) (_ BitVec 8) (_ BitVec 8) (_ BitVec 8) (_ BitVec 8) (_ BitVec 8) (_ BitVec 8) (_ BitVec 8) (_ BitVec 8) (_ BitVec 8) (_ BitVec 8) (_ BitVec 8) (_ BitVec 8) (_ BitVec 8) (_ BitVec 8) (_ BitVec 8) (_ BitVec 8) (_ BitVec 8) (_ BitVec 8) (_ BitVec 8) (_ BitVec 8) (_ BitVec 8) (_ BitVec 8) (_ BitVec 8) (_ BitVec 8) (_ BitVec 8)) H)
`

func NewSolver(which string, timeoutMs int) (*Solver, error) {
	var cmd *exec.Cmd
	switch which {
	case "z3", "":
		which = "z3"
		cmd = exec.Command("z3", "-in", fmt.Sprintf("-t:%d", timeoutMs))
	case "z3-new":
		cmd = exec.Command("z3-new", "-in", fmt.Sprintf("-t:%d", timeoutMs))
	case "cvc5":
		cmd = exec.Command("cvc5", "--incremental", "--lang=smt2", "--produce-models",
			fmt.Sprintf("--tlimit-per=%d", timeoutMs))
	default:
		return nil, fmt.Errorf("unknown solver %q", which)
	}
	in, err := cmd.StdinPipe()
	if err != nil {
		return nil, err
	}
	outp, err := cmd.StdoutPipe()
	if err != nil {
		return nil, err
	}
	cmd.Stderr = cmd.Stdout
	if err := cmd.Start(); err != nil {
		return nil, err
	}
	s := &Solver{name: which, cmd: cmd, in: in, out: bufio.NewReaderSize(outp, 1<<16),
		defined: map[int]bool{}, vars: map[string]bool{}, timeout: timeoutMs}
	s.stats.ByKind = map[string][3]int{}
	if which == "cvc5" {
		s.send("(set-logic ALL)\n")
	} else {
		s.send("(set-option :produce-models true)\n")
	}
	s.send(prelude)
	return s, nil
}

func (s *Solver) Close() {
	if s == nil || s.cmd == nil {
		return
	}
	s.in.Close()
	s.cmd.Process.Kill()
	s.cmd.Wait()
}

func (s *Solver) send(str string) {
	if s.log != nil {
		io.WriteString(s.log, str)
	}
	io.WriteString(s.in, str)
}

// define makes sure the term and all its subterms are known to the solver.
func (s *Solver) define(t *Term) {
	if t.op == OVar {
		if !s.vars[t.name] {
			s.vars[t.name] = true
			fmt.Fprintf(&s.buf, "(declare-const %s %s)\n", t.name, t.sort)
		}
		return
	}
	if t.leaf() || s.defined[t.id] {
		return
	}
	// iterative post-order to avoid deep recursion
	type fr struct {
		t *Term
		i int
	}
	st := []fr{{t, 0}}
	for len(st) > 0 {
		f := &st[len(st)-1]
		if f.i < len(f.t.args) {
			a := f.t.args[f.i]
			f.i++
			if a.op == OVar {
				if !s.vars[a.name] {
					s.vars[a.name] = true
					fmt.Fprintf(&s.buf, "(declare-const %s %s)\n", a.name, a.sort)
				}
			} else if !a.leaf() && !s.defined[a.id] {
				st = append(st, fr{a, 0})
			}
			continue
		}
		if !s.defined[f.t.id] {
			s.defined[f.t.id] = true
			fmt.Fprintf(&s.buf, "(define-fun %s () %s %s)\n", f.t.ref(), f.t.sort, f.t.body())
		}
		st = st[:len(st)-1]
	}
}

func (s *Solver) flush() {
	if s.buf.Len() > 0 {
		s.send(s.buf.String())
		s.buf.Reset()
	}
}

// sync makes the solver's assertion stack equal to pc.
func (s *Solver) sync(pc []*Term) {
	n := 0
	for n < len(pc) && n < len(s.stack) && pc[n] == s.stack[n] {
		n++
	}
	if d := len(s.stack) - n; d > 0 {
		fmt.Fprintf(&s.buf, "(pop %d)\n", d)
		s.stack = s.stack[:n]
	}
	for _, c := range pc[n:] {
		s.define(c)
		fmt.Fprintf(&s.buf, "(push 1)\n(assert %s)\n", c.ref())
		s.stack = append(s.stack, c)
	}
}

const marker = "@@done@@"

// readUntilMarker collects output lines up to the echo marker.
func (s *Solver) readUntilMarker() ([]string, error) {
	var lines []string
	for {
		line, err := s.out.ReadString('\n')
		if err != nil {
			return lines, err
		}
		line = strings.TrimSpace(line)
		if line == marker || line == "\""+marker+"\"" {
			return lines, nil
		}
		if line != "" {
			lines = append(lines, line)
		}
	}
}

type Result int

const (
	RUnsat Result = iota
	RSat
	RUnknown
)

func (r Result) String() string { return [...]string{"unsat", "sat", "unknown"}[r] }

// Check asks sat(pc ∧ extra...).  kind labels the query for statistics.
func (s *Solver) Check(pc []*Term, kind string, extra ...*Term) Result {
	r, _ := s.check(pc, kind, false, nil, extra...)
	return r
}

func (s *Solver) check(pc []*Term, kind string, wantModel bool, vals []*Term, extra ...*Term) (Result, []string) {
	t0 := time.Now()
	s.sync(pc)
	for _, e := range extra {
		s.define(e)
	}
	for _, v := range vals {
		s.define(v)
	}
	if len(extra) > 0 {
		s.buf.WriteString("(push 1)\n")
		for _, e := range extra {
			fmt.Fprintf(&s.buf, "(assert %s)\n", e.ref())
		}
	}
	s.buf.WriteString("(check-sat)\n(echo \"" + marker + "\")\n")
	s.flush()
	lines, err := s.readUntilMarker()
	res := RUnknown
	bad := err != nil
	for _, l := range lines {
		switch {
		case l == "sat":
			res = RSat
		case l == "unsat":
			res = RUnsat
		case l == "unknown" || l == "timeout":
			res = RUnknown
		case strings.HasPrefix(l, "(error"):
			bad = true
			s.stats.Errors++
			if s.log != nil {
				fmt.Fprintf(s.log, "; SOLVER ERROR: %s\n", l)
			}
			lastSolverError = l
		}
	}
	if bad {
		res = RUnknown
	}
	var model []string
	if res == RSat && wantModel && len(vals) > 0 {
		var sb strings.Builder
		sb.WriteString("(get-value (")
		for _, v := range vals {
			sb.WriteString(v.ref())
			sb.WriteString(" ")
		}
		sb.WriteString("))\n(echo \"" + marker + "\")\n")
		s.send(sb.String())
		ml, _ := s.readUntilMarker()
		model = ml
	}
	if len(extra) > 0 {
		s.send("(pop 1)\n")
	}
	s.stats.Time += time.Since(t0)
	k := s.stats.ByKind[kind]
	switch res {
	case RSat:
		s.stats.Sat++
		k[0]++
	case RUnsat:
		s.stats.Unsat++
		k[1]++
	default:
		s.stats.Unknown++
		k[2]++
	}
	s.stats.ByKind[kind] = k
	return res, model
}

var lastSolverError string

// ---- model parsing ----

type SExp struct {
	atom string
	list []*SExp
}

func parseSExps(src string) []*SExp {
	var out []*SExp
	pos := 0
	var parse func() *SExp
	skip := func() {
		for pos < len(src) && (src[pos] == ' ' || src[pos] == '\n' || src[pos] == '\t' || src[pos] == '\r') {
			pos++
		}
	}
	parse = func() *SExp {
		skip()
		if pos >= len(src) {
			return nil
		}
		if src[pos] == '(' {
			pos++
			e := &SExp{}
			for {
				skip()
				if pos >= len(src) {
					return e
				}
				if src[pos] == ')' {
					pos++
					return e
				}
				e.list = append(e.list, parse())
			}
		}
		st := pos
		if src[pos] == '|' {
			pos++
			for pos < len(src) && src[pos] != '|' {
				pos++
			}
			pos++
		} else {
			for pos < len(src) && !strings.ContainsRune(" \n\t\r()", rune(src[pos])) {
				pos++
			}
		}
		return &SExp{atom: src[st:pos]}
	}
	for {
		skip()
		if pos >= len(src) {
			break
		}
		out = append(out, parse())
	}
	return out
}

// MVal is a concrete model value.
type MVal struct {
	Kind string // "bv", "bool", "zero", "atom", "node", "other"
	U    uint64
	L, R *MVal
	Raw  string
}

func (e *SExp) String() string {
	if e.list == nil && e.atom != "" {
		return e.atom
	}
	var parts []string
	for _, x := range e.list {
		parts = append(parts, x.String())
	}
	return "(" + strings.Join(parts, " ") + ")"
}

func sexpToMVal(e *SExp) *MVal {
	if e == nil {
		return &MVal{Kind: "other"}
	}
	if e.list == nil {
		a := e.atom
		switch {
		case a == "true":
			return &MVal{Kind: "bool", U: 1}
		case a == "false":
			return &MVal{Kind: "bool", U: 0}
		case a == "Zero":
			return &MVal{Kind: "zero"}
		case strings.HasPrefix(a, "#x"):
			u, _ := strconv.ParseUint(a[2:], 16, 64)
			return &MVal{Kind: "bv", U: u}
		case strings.HasPrefix(a, "#b"):
			u, _ := strconv.ParseUint(a[2:], 2, 64)
			return &MVal{Kind: "bv", U: u}
		}
		return &MVal{Kind: "other", Raw: a}
	}
	if len(e.list) > 0 && e.list[0].list == nil {
		switch e.list[0].atom {
		case "Atom":
			if len(e.list) == 2 {
				return &MVal{Kind: "atom", U: sexpToMVal(e.list[1]).U}
			}
		case "Node":
			if len(e.list) == 3 {
				return &MVal{Kind: "node", L: sexpToMVal(e.list[1]), R: sexpToMVal(e.list[2])}
			}
		case "_":
			// (_ bvN w)
			if len(e.list) == 3 && strings.HasPrefix(e.list[1].atom, "bv") {
				u, _ := strconv.ParseUint(e.list[1].atom[2:], 10, 64)
				return &MVal{Kind: "bv", U: u}
			}
		case "as":
			if len(e.list) >= 2 {
				return sexpToMVal(e.list[1])
			}
		}
	}
	return &MVal{Kind: "other", Raw: e.String()}
}

// Model asks for values of the given terms under pc ∧ extra.  Returns nil if not sat.
func (s *Solver) Model(pc []*Term, kind string, vals []*Term, extra ...*Term) (Result, []*MVal) {
	res, lines := s.check(pc, kind, true, vals, extra...)
	if res != RSat {
		return res, nil
	}
	es := parseSExps(strings.Join(lines, "\n"))
	out := make([]*MVal, len(vals))
	if len(es) == 1 && len(es[0].list) == len(vals) {
		for i, pair := range es[0].list {
			if len(pair.list) == 2 {
				out[i] = sexpToMVal(pair.list[1])
			}
		}
	}
	for i := range out {
		if out[i] == nil {
			out[i] = &MVal{Kind: "other"}
		}
	}
	return res, out
}
