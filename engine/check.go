package main

// check / replay commands: per-property driver, native replay, known findings, evidence.

import (
	"bytes"
	"crypto/sha256"
	"crypto/sha512"
	"encoding/binary"
	"encoding/hex"
	"encoding/json"
	"flag"
	"fmt"
	"os"
	"os/exec"
	"path/filepath"
	"runtime"
	"sort"
	"strconv"
	"strings"
	"sync"
	"time"

	"golang.org/x/tools/go/ssa"
)

type HarnessCfg struct {
	Name       string         `json:"name"`
	Params     map[string]int `json:"params,omitempty"`
	Unwind     int            `json:"unwind,omitempty"`
	TimeoutMs  int            `json:"timeout_ms,omitempty"`
	Witness    int            `json:"witness,omitempty"`
	Solver     string         `json:"solver,omitempty"`
	Cross      []string       `json:"cross,omitempty"` // re-run on these solvers and compare verdicts
	MapReverse bool           `json:"map_reverse,omitempty"`
	Workers    int            `json:"workers,omitempty"`
	BudgetS    int            `json:"budget_s,omitempty"`
	Note       string         `json:"note,omitempty"`
	Optional   bool           `json:"optional,omitempty"` // skip (and say so) if the harness function no longer type-checks
	MaxPaths   int            `json:"max_paths,omitempty"`
	SampleOnly bool           `json:"sample_only,omitempty"` // translator-validation harness: a path cap is not an incomplete verdict
}

type PropCfg struct {
	Title       string              `json:"title"`
	Quick       []HarnessCfg        `json:"quick"`
	Thorough    []HarnessCfg        `json:"thorough"`
	Assumptions []string            `json:"assumptions"`
	Bounds      map[string]string   `json:"bounds"`
	Symbolic    []string            `json:"symbolic_dimensions"`
	CaseSplit   []string            `json:"case_split_dimensions"`
	Stubs       []string            `json:"stubs"`
	Outside     []string            `json:"outside_claim"`
	Extra       map[string][]string `json:"extra,omitempty"`
}

type KnownFinding struct {
	State, Property, Tag, What string
}

func loadKnownFindings() []KnownFinding {
	b, err := os.ReadFile(filepath.Join(verifRoot, "KNOWN_FINDINGS.txt"))
	if err != nil {
		return nil
	}
	var out []KnownFinding
	for _, line := range strings.Split(string(b), "\n") {
		line = strings.TrimSpace(line)
		if line == "" || strings.HasPrefix(line, "#") {
			continue
		}
		kf := KnownFinding{}
		switch {
		case strings.HasPrefix(line, "open:"):
			kf.State = "open"
		case strings.HasPrefix(line, "fixed:"):
			kf.State = "fixed"
		default:
			continue
		}
		for _, f := range strings.Fields(line) {
			if strings.HasPrefix(f, "property=") {
				kf.Property = f[len("property="):]
			}
			if strings.HasPrefix(f, "tag=") {
				kf.Tag = f[len("tag="):]
			}
		}
		if i := strings.Index(line, "what="); i >= 0 {
			kf.What = strings.Trim(line[i+5:], "\"")
		}
		out = append(out, kf)
	}
	return out
}

// ---- native replay ----

type replayer struct {
	bin      string
	buildErr string
	ready    chan struct{}
	files    []string
}

func harnessNames(pkg *ssa.Package) []string {
	var out []string
	for name, m := range pkg.Members {
		f, ok := m.(*ssa.Function)
		if !ok || f.Signature.Params().Len() != 0 || f.Signature.Results().Len() != 0 || f.Signature.Recv() != nil {
			continue
		}
		if strings.HasPrefix(name, "Harness") || strings.HasPrefix(name, "Lemma") {
			out = append(out, name)
		}
	}
	sort.Strings(out)
	return out
}

// scratchRoot is where out/ and evidence/ go: /verif unless VERIF_SCRATCH redirects them
// (used when trying seeded mutations in scratch worktrees, so that /verif/evidence is untouched).
func scratchRoot() string {
	if v := os.Getenv("VERIF_SCRATCH"); v != "" {
		return v
	}
	return verifRoot
}

func outDir() string {
	d := filepath.Join(scratchRoot(), "out")
	os.MkdirAll(filepath.Join(d, "replay"), 0o755)
	return d
}

// startReplayBuild compiles the native replay test binary from /repo's current tree in the background.
func startReplayBuild(pkg *ssa.Package, files []string, tag string) *replayer {
	r := &replayer{ready: make(chan struct{}), files: files}
	go func() {
		defer close(r.ready)
		od := outDir()
		tmpl, err := os.ReadFile(filepath.Join(verifRoot, "harness", "replay_main_test.go.tmpl"))
		if err != nil {
			r.buildErr = err.Error()
			return
		}
		var reg strings.Builder
		for _, n := range harnessNames(pkg) {
			fmt.Fprintf(&reg, "\t%q: %s,\n", n, n)
		}
		mainFile := filepath.Join(od, "replay_main_"+tag+"_test.go")
		os.WriteFile(mainFile, bytes.Replace(tmpl, []byte("\t//REGISTRY//\n"), []byte(reg.String()), 1), 0o644)
		ov := map[string]map[string]string{"Replace": {}}
		for _, f := range files {
			ov["Replace"][filepath.Join(repoDir, "zz_verif_"+filepath.Base(f))] = f
		}
		ov["Replace"][filepath.Join(repoDir, "zz_verif_intrinsics_native.go")] = filepath.Join(verifRoot, "harness", "intrinsics_native.go")
		ov["Replace"][filepath.Join(repoDir, "zz_verif_replay_main_test.go")] = mainFile
		ob, _ := json.Marshal(ov)
		ovFile := filepath.Join(od, "overlay_"+tag+".json")
		os.WriteFile(ovFile, ob, 0o644)
		bin := filepath.Join(od, "replay_"+tag+".test")
		cmd := exec.Command("go", "test", "-c", "-vet=off", "-tags", "verif verifreplay", "-overlay", ovFile, "-o", bin, ".")
		cmd.Dir = repoDir
		cmd.Env = append(os.Environ(), "GOFLAGS=-mod=mod", "GOPROXY=off", "GOSUMDB=off", "GOTOOLCHAIN=local")
		out, err := cmd.CombinedOutput()
		if err != nil {
			r.buildErr = fmt.Sprintf("replay build failed: %v\n%s", err, out)
			return
		}
		r.bin = bin
	}()
	return r
}

type nativeResult struct {
	File    string   `json:"file"`
	Status  string   `json:"status"`
	ID      string   `json:"id"`
	Reached []string `json:"reached"`
	Obs     []string `json:"obs"`
	Unused  int      `json:"unused"`
}

// run replays the given vector files natively (sequentially, one process per batch; restarts after a timeout).
func (r *replayer) run(files []string, timeoutMs int) (map[string]nativeResult, error) {
	<-r.ready
	if r.buildErr != "" {
		return nil, fmt.Errorf("%s", r.buildErr)
	}
	res := map[string]nativeResult{}
	rest := files
	for len(rest) > 0 {
		batch := rest
		if len(batch) > 200 {
			batch = batch[:200]
		}
		cmd := exec.Command(r.bin, "-test.run", "^TestVerifReplay$", "-test.timeout", "0")
		cmd.Dir = repoDir
		cmd.Env = append(os.Environ(), "VERIF_REPLAY_FILES="+strings.Join(batch, ":"), fmt.Sprintf("VERIF_REPLAY_TIMEOUT_MS=%d", timeoutMs))
		out, _ := cmd.CombinedOutput()
		n := 0
		for _, line := range strings.Split(string(out), "\n") {
			if strings.HasPrefix(line, "VERIF-RESULT ") {
				var nr nativeResult
				if json.Unmarshal([]byte(line[len("VERIF-RESULT "):]), &nr) == nil {
					res[nr.File] = nr
					n++
				}
			}
		}
		if n == 0 {
			return res, fmt.Errorf("replay binary produced no result: %s", truncate(string(out), 2000))
		}
		rest = rest[n:]
	}
	return res, nil
}

func truncate(s string, n int) string {
	if len(s) > n {
		return s[:n] + "..."
	}
	return s
}

func atomBytes(id uint64) [32]byte {
	var b [12]byte
	copy(b[:], "atom")
	binary.LittleEndian.PutUint64(b[4:], id)
	return sha256.Sum256(b[:])
}

func (h *HashJS) concrete() [32]byte {
	if h == nil || h.Z {
		return [32]byte{}
	}
	if h.A != nil {
		return atomBytes(*h.A)
	}
	l, r := h.L.concrete(), h.R.concrete()
	return sha512.Sum512_256(append(l[:], r[:]...))
}

// ---- evidence ----

type Evidence struct {
	PropertyID  string                 `json:"property_id"`
	Tier        string                 `json:"tier"`
	Seed        int                    `json:"seed"`
	Level       string                 `json:"level"`
	Coverage    map[string]interface{} `json:"coverage"`
	Assumptions []string               `json:"assumptions"`
	WallS       float64                `json:"wall_s"`
	Violations  int                    `json:"violations"`
}

type harnessReport struct {
	Name          string            `json:"harness"`
	Params        map[string]int    `json:"params"`
	Solver        string            `json:"solver"`
	Paths         int               `json:"paths"`
	Done          int               `json:"completed_paths"`
	Infeasible    int               `json:"infeasible_paths"`
	Forks         int               `json:"fork_decisions"`
	Pruned        int               `json:"branches_pruned_by_solver"`
	UnknownFeas   int               `json:"feasibility_unknown_kept"`
	Asserts       int               `json:"assertions_reached"`
	Folded        int               `json:"assertions_folded_by_simplifier"`
	AssertQueries int               `json:"assertion_queries"`
	AssertUnknown int               `json:"assertion_unknown"`
	UnwindHits    int               `json:"unwinding_assertions_failed"`
	PanicPaths    int               `json:"panic_paths"`
	ErrorPaths    int               `json:"engine_error_paths"`
	Queries       map[string][3]int `json:"queries_by_kind_sat_unsat_unknown"`
	SolverS       float64           `json:"solver_s"`
	WallS         float64           `json:"wall_s"`
	Steps         int64             `json:"ssa_instructions_executed"`
	Reached       map[string]int    `json:"reach_markers"`
	Cross         map[string]string `json:"cross_check,omitempty"`
	Incomplete    bool              `json:"incomplete"`
	Unwind        int               `json:"unwind_bound"`
	Skipped       string            `json:"skipped,omitempty"`
}

func writeEvidence(ev *Evidence) {
	os.MkdirAll(filepath.Join(scratchRoot(), "evidence"), 0o755)
	b, _ := json.MarshalIndent(ev, "", " ")
	os.WriteFile(filepath.Join(scratchRoot(), "evidence", ev.PropertyID+".json"), b, 0o644)
}

func loadChecks() (map[string]*PropCfg, error) {
	b, err := os.ReadFile(filepath.Join(verifRoot, "checks.json"))
	if err != nil {
		return nil, err
	}
	m := map[string]*PropCfg{}
	if err := json.Unmarshal(b, &m); err != nil {
		return nil, err
	}
	return m, nil
}

func cmdCheck(args []string) {
	fs := flag.NewFlagSet("check", flag.ExitOnError)
	prop := fs.String("property", "", "property id")
	tier := fs.String("tier", "", "quick | thorough")
	only := fs.String("only", "", "run only this harness (development)")
	workers := fs.Int("workers", runtime.NumCPU(), "parallel workers")
	fs.Parse(args)
	if *tier == "" {
		*tier = os.Getenv("VERIF_TIER")
	}
	if *tier != "thorough" {
		*tier = "quick"
	}
	seed, _ := strconv.Atoi(os.Getenv("VERIF_SEED"))
	t0 := time.Now()
	id := *prop
	inconclusive := func(format string, a ...interface{}) {
		msg := fmt.Sprintf(format, a...)
		fmt.Printf("INCONCLUSIVE property=%s %s\n", id, msg)
		ev := &Evidence{PropertyID: id, Tier: *tier, Seed: seed, Level: "model_checking",
			Coverage: map[string]interface{}{"evaluations": 0, "distinct_nontrivial": 0, "explanation": "run inconclusive: " + msg},
			WallS:    time.Since(t0).Seconds()}
		writeEvidence(ev)
		os.Exit(2)
	}
	checks, err := loadChecks()
	if err != nil {
		inconclusive("cannot load checks.json: %v", err)
	}
	cfg := checks[id]
	if cfg == nil {
		inconclusive("no check configured")
	}
	hcfgs := cfg.Quick
	if *tier == "thorough" {
		hcfgs = cfg.Thorough
	}
	prog, pkg, skippedFiles, err := loadProgram(harnessFiles())
	if err != nil {
		inconclusive("cannot load /repo with harness overlay: %v", err)
	}
	loadS := time.Since(t0).Seconds()
	var liveFiles []string
	for _, f := range harnessFiles() {
		sk := false
		for _, s := range skippedFiles {
			if s == "zz_verif_"+filepath.Base(f) {
				sk = true
			}
		}
		if !sk {
			liveFiles = append(liveFiles, f)
		}
	}
	if id == "C12" {
		cmdCheckC12(cfg, hcfgs, prog, pkg, liveFiles, *tier, seed, *workers, t0, inconclusive)
		return
	}
	rp := startReplayBuild(pkg, liveFiles, id+"_"+*tier)

	openKF := map[string]KnownFinding{}
	for _, kf := range loadKnownFindings() {
		if kf.State == "open" && kf.Property == id {
			openKF[kf.Tag] = kf
		}
	}

	type cand struct {
		v    Violation
		file string
	}
	type hres struct {
		rep      harnessReport
		viols    []Violation
		wits     []Witness
		samples  []interface{}
		problems []string
		funcs    map[string]int
		states   int
		trans    int
		fatal    string
	}
	var sel []HarnessCfg
	for _, hc := range hcfgs {
		if *only != "" && hc.Name != *only {
			continue
		}
		sel = append(sel, hc)
	}
	results := make([]*hres, len(sel))
	runOne := func(hc HarnessCfg) *hres {
		hr := &hres{funcs: map[string]int{}}
		rep := &hr.rep
		rep.Name, rep.Params = hc.Name, hc.Params
		if pkg.Func(hc.Name) == nil {
			if hc.Optional {
				rep.Skipped = "harness not available (its overlay file no longer type-checks against /repo)"
				return hr
			}
			hr.fatal = fmt.Sprintf("harness %s not found", hc.Name)
			return hr
		}
		solvers := append([]string{hc.Solver}, hc.Cross...)
		var first *RunStats
		for si, sv := range solvers {
			if sv == "" {
				sv = "z3"
			}
			ex := &Explorer{prog: prog, pkg: pkg, harness: hc.Name, params: hc.Params, workers: *workers,
				solver: sv, timeoutMs: 60000, unwind: 70, maxSteps: 2_000_000_000, witnessN: hc.Witness,
				mapReverse: hc.MapReverse, openKF: openKF, seed: seed}
			if len(sel) > 2 && ex.workers > 8 {
				ex.workers = 8
			}
			if hc.Workers > 0 {
				ex.workers = hc.Workers
			}
			if hc.TimeoutMs > 0 {
				ex.timeoutMs = hc.TimeoutMs
			}
			if hc.Unwind > 0 {
				ex.unwind = hc.Unwind
			}
			budget := hc.BudgetS
			if budget == 0 {
				// default wall budget per harness: a run that needs longer is reported as incomplete (exit 2)
				budget = 1200
				if *tier == "thorough" {
					budget = 6 * 3600
				}
			}
			ex.deadline = time.Now().Add(time.Duration(budget) * time.Second)
			if si > 0 {
				ex.witnessN = 0
			}
			ex.maxPaths = hc.MaxPaths
			st := ex.Run()
			if hc.SampleOnly {
				st.Incomplete = false
			}
			if si == 0 {
				first = st
				rep.Solver = sv
				rep.Paths, rep.Done, rep.Infeasible = st.Paths, st.Done, st.Infeasible
				rep.Forks, rep.Pruned, rep.UnknownFeas = st.Forks, st.Pruned, st.UnknownFeas
				rep.Asserts, rep.Folded, rep.AssertQueries, rep.AssertUnknown = st.Asserts, st.Folded, st.AssertQueries, st.AssertUnknown
				rep.UnwindHits, rep.PanicPaths, rep.ErrorPaths = st.UnwindPaths, st.PanicPaths, st.ErrorPaths
				rep.Queries = st.Solver.ByKind
				rep.SolverS = st.Solver.Time.Seconds()
				rep.WallS = st.Wall.Seconds()
				rep.Steps = st.Steps
				rep.Reached = st.Reached
				rep.Incomplete = st.Incomplete
				rep.Unwind = ex.unwind
				for k, v := range st.ParamsUsed {
					if rep.Params == nil {
						rep.Params = map[string]int{}
					}
					rep.Params[k] = v
				}
				for f, c := range st.Funcs {
					hr.funcs[f] += c
				}
				hr.states = st.Done
				hr.trans = st.Forks
				for _, s := range st.Samples {
					hr.samples = append(hr.samples, map[string]interface{}{"harness": hc.Name, "path": s})
				}
				for _, e := range st.Errors {
					hr.problems = append(hr.problems, hc.Name+": "+e)
				}
				if st.Incomplete {
					hr.problems = append(hr.problems, hc.Name+": exploration incomplete (budget)")
				}
				if st.AssertUnknown > 0 {
					hr.problems = append(hr.problems, fmt.Sprintf("%s: %d assertion queries unknown/timeout", hc.Name, st.AssertUnknown))
				}
				if st.Solver.Errors > 0 {
					hr.problems = append(hr.problems, fmt.Sprintf("%s: %d solver error lines (%s)", hc.Name, st.Solver.Errors, lastSolverError))
				}
				if st.SortLong > 0 {
					hr.problems = append(hr.problems, fmt.Sprintf("%s: payload sort model used beyond 12 elements", hc.Name))
				}
				if st.Done == 0 && len(st.Violations) == 0 {
					hr.problems = append(hr.problems, hc.Name+": no path completed (vacuous)")
				}
				hr.viols = st.Violations
				hr.wits = st.Witnesses
			} else {
				if rep.Cross == nil {
					rep.Cross = map[string]string{}
				}
				same := st.Paths == first.Paths && st.Done == first.Done && violKeys(st) == violKeys(first) && st.AssertUnknown == 0 && st.ErrorPaths == 0
				rep.Cross[sv] = fmt.Sprintf("paths=%d done=%d violations=%s agree=%v solver_s=%.1f", st.Paths, st.Done, violKeys(st), same, st.Solver.Time.Seconds())
				if !same {
					hr.problems = append(hr.problems, fmt.Sprintf("%s: solver %s disagrees with %s (%s vs paths=%d done=%d violations=%s)", hc.Name, sv, rep.Solver, rep.Cross[sv], first.Paths, first.Done, violKeys(first)))
				}
			}
		}
		return hr
	}
	var wg sync.WaitGroup
	for i := range sel {
		wg.Add(1)
		go func(i int) {
			defer wg.Done()
			results[i] = runOne(sel[i])
		}(i)
	}
	wg.Wait()
	var reports []harnessReport
	var cands []cand
	var wits []Witness
	var witFiles []string
	funcs := map[string]int{}
	var samples []interface{}
	var problems []string
	totalStates, totalTrans := 0, 0
	nfile := 0
	for i, hr := range results {
		hc := sel[i]
		if hr.fatal != "" {
			inconclusive("%s", hr.fatal)
		}
		reports = append(reports, hr.rep)
		for f, c := range hr.funcs {
			funcs[f] += c
		}
		totalStates += hr.states
		totalTrans += hr.trans
		if len(hr.samples) > 3 {
			hr.samples = hr.samples[:3]
		}
		samples = append(samples, hr.samples...)
		problems = append(problems, hr.problems...)
		for _, v := range hr.viols {
			v.Property = id
			nfile++
			f := filepath.Join(outDir(), "replay", fmt.Sprintf("%s-%s-%d.json", id, hc.Name, nfile))
			b, _ := json.MarshalIndent(v, "", " ")
			os.WriteFile(f, b, 0o644)
			cands = append(cands, cand{v, f})
		}
		for _, w := range hr.wits {
			nfile++
			f := filepath.Join(outDir(), "replay", fmt.Sprintf("%s-%s-w%d.json", id, hc.Name, nfile))
			b, _ := json.Marshal(w)
			os.WriteFile(f, b, 0o644)
			wits = append(wits, w)
			witFiles = append(witFiles, f)
		}
	}

	// native replay of candidates and witnesses
	var files []string
	for _, c := range cands {
		files = append(files, c.file)
	}
	files = append(files, witFiles...)
	var native map[string]nativeResult
	if len(files) > 0 {
		native, err = rp.run(files, 5000)
		if err != nil {
			problems = append(problems, "native replay: "+err.Error())
		}
	} else {
		<-rp.ready
		if rp.buildErr != "" {
			problems = append(problems, rp.buildErr)
		}
	}
	nViol := 0
	var vioLines, kfLines []string
	kfSeen := map[string]bool{}
	for _, c := range cands {
		nr, ok := native[c.file]
		repro := false
		if ok {
			switch c.v.Kind {
			case "assert", "known":
				repro = nr.Status == "assert" && nr.ID == c.v.ID
			case "panic":
				repro = nr.Status == "panic"
			case "unwind":
				repro = nr.Status == "timeout"
			}
		}
		if !repro {
			problems = append(problems, fmt.Sprintf("solver model for %s %s did not reproduce natively (native status %q id %q): encoding defect, not a finding; replay=%s", c.v.Kind, c.v.ID, nr.Status, truncate(nr.ID, 200), c.file))
			continue
		}
		if c.v.Kind == "known" {
			if !kfSeen[c.v.Tag] {
				kfSeen[c.v.Tag] = true
				kfLines = append(kfLines, fmt.Sprintf("KNOWN-FINDING: property=%s %s [%s, assertion %s, replay=%s]", id, openKF[c.v.Tag].What, c.v.Tag, c.v.ID, c.file))
			}
			continue
		}
		nViol++
		keep := filepath.Join(scratchRoot(), "out", "violations")
		os.MkdirAll(keep, 0o755)
		dst := filepath.Join(keep, filepath.Base(c.file))
		b, _ := os.ReadFile(c.file)
		os.WriteFile(dst, b, 0o644)
		vioLines = append(vioLines, fmt.Sprintf("VIOLATION property=%s replay=%s", id, dst))
		fmt.Printf("violation detail: harness=%s kind=%s id=%s native=%s\n", c.v.Harness, c.v.Kind, c.v.ID, truncate(nr.ID, 300))
	}
	validated := 0
	for i, w := range wits {
		nr, ok := native[witFiles[i]]
		if !ok {
			continue
		}
		good := nr.Status == "done" && strings.Join(nr.Reached, ",") == strings.Join(w.Reached, ",") && len(nr.Obs) == len(w.Obs)
		if good {
			for k, o := range w.Obs {
				var want string
				if o.IsH {
					hb := o.H.concrete()
					want = o.Tag + "=h:" + hex.EncodeToString(hb[:])
				} else {
					want = o.Tag + "=u:" + strconv.FormatUint(o.U, 10)
				}
				if nr.Obs[k] != want {
					good = false
					problems = append(problems, fmt.Sprintf("witness %s: observation %d differs: native %s, symbolic %s", witFiles[i], k, truncate(nr.Obs[k], 100), truncate(want, 100)))
					break
				}
			}
		} else {
			problems = append(problems, fmt.Sprintf("witness %s: native run status=%s id=%s reached=%v, symbolic reached=%v", witFiles[i], nr.Status, truncate(nr.ID, 300), nr.Reached, w.Reached))
		}
		if good {
			validated++
			if len(samples) < 12 {
				samples = append(samples, map[string]interface{}{"harness": w.Harness, "witness_input": w.Vector, "reached": w.Reached})
			}
		}
	}

	// evidence
	type fc struct {
		n string
		c int
	}
	var fl []fc
	for f, c := range funcs {
		if strings.Contains(f, "utreexo") && !strings.Contains(f, "verif") && !strings.Contains(f, ".Harness") && !strings.Contains(f, ".Lemma") {
			fl = append(fl, fc{f, c})
		}
	}
	sort.Slice(fl, func(i, j int) bool { return fl[i].n < fl[j].n })
	var fnames []string
	for _, f := range fl {
		fnames = append(fnames, fmt.Sprintf("%s (x%d)", strings.Replace(f.n, upkg, "utreexo", -1), f.c))
	}
	qs, qu, qk := 0, 0, 0
	solverS := 0.0
	for _, r := range reports {
		for _, v := range r.Queries {
			qs += v[0]
			qu += v[1]
			qk += v[2]
		}
		solverS += r.SolverS
	}
	if len(samples) == 0 {
		samples = append(samples, "no completed path")
	}
	ev := &Evidence{PropertyID: id, Tier: *tier, Seed: seed, Level: "model_checking", Assumptions: cfg.Assumptions,
		Coverage: map[string]interface{}{
			"states":                        totalStates,
			"transitions":                   totalTrans,
			"traces_validated_against_impl": validated,
			"samples":                       samples,
			"explanation":                   "states = completed symbolic paths (each covers every input value satisfying its path condition); transitions = fork decisions; traces_validated = solver witness models replayed against the native build with identical reach markers and observations",
			"harnesses":                     reports,
			"functions_encoded":             fnames,
			"bounds":                        cfg.Bounds[*tier],
			"symbolic_dimensions":           cfg.Symbolic,
			"case_split_dimensions":         cfg.CaseSplit,
			"stubs":                         cfg.Stubs,
			"outside_claim":                 cfg.Outside,
			"queries":                       map[string]int{"sat": qs, "unsat": qu, "unknown": qk},
			"solver_s":                      solverS,
			"load_and_ssa_build_s":          loadS,
			"skipped_overlay_files":         skippedFiles,
			"known_findings_reproduced":     kfLines,
			"problems":                      problems,
			"exhaustive":                    false,
		},
		WallS: time.Since(t0).Seconds(), Violations: nViol}
	writeEvidence(ev)
	for _, r := range reports {
		fmt.Printf("harness %-28s paths=%d done=%d asserts=%d (folded %d, queries %d) solver=%.1fs wall=%.1fs %s\n", r.Name, r.Paths, r.Done, r.Asserts, r.Folded, r.AssertQueries, r.SolverS, r.WallS, r.Skipped)
	}
	for _, l := range kfLines {
		fmt.Println(l)
	}
	for _, l := range vioLines {
		fmt.Println(l)
	}
	fmt.Printf("property=%s tier=%s states=%d witnesses_validated=%d/%d violations=%d wall=%.1fs\n", id, *tier, totalStates, validated, len(wits), nViol, time.Since(t0).Seconds())
	if nViol > 0 {
		os.Exit(1)
	}
	if len(problems) > 0 {
		for _, p := range problems {
			fmt.Println("INCONCLUSIVE:", p)
		}
		os.Exit(2)
	}
}

func violKeys(st *RunStats) string {
	m := map[string]bool{}
	for _, v := range st.Violations {
		m[v.Kind+":"+v.ID] = true
	}
	var ks []string
	for k := range m {
		ks = append(ks, k)
	}
	sort.Strings(ks)
	return "[" + strings.Join(ks, " ") + "]"
}

func cmdReplay(args []string) {
	if len(args) < 1 {
		fmt.Fprintln(os.Stderr, "usage: ssa2smt replay <file.json>")
		os.Exit(2)
	}
	_, pkg, skipped, err := loadProgram(harnessFiles())
	if err != nil {
		fmt.Fprintln(os.Stderr, err)
		os.Exit(2)
	}
	var live []string
	for _, f := range harnessFiles() {
		sk := false
		for _, s := range skipped {
			if s == "zz_verif_"+filepath.Base(f) {
				sk = true
			}
		}
		if !sk {
			live = append(live, f)
		}
	}
	rp := startReplayBuild(pkg, live, "manual")
	abs, _ := filepath.Abs(args[0])
	res, err := rp.run([]string{abs}, 10000)
	if err != nil {
		fmt.Fprintln(os.Stderr, err)
		os.Exit(2)
	}
	nr := res[abs]
	b, _ := json.MarshalIndent(nr, "", " ")
	fmt.Println(string(b))
	if nr.Status == "assert" || nr.Status == "panic" || nr.Status == "timeout" {
		fmt.Println("REPRODUCED")
		os.Exit(1)
	}
}

func cmdCheckC12(cfg *PropCfg, hcfgs []HarnessCfg, prog *ssa.Program, pkg *ssa.Package, liveFiles []string, tier string, seed, workers int, t0 time.Time, inconclusive func(string, ...interface{})) {
	id := "C12"
	kfs := map[string]KnownFinding{}
	for _, kf := range loadKnownFindings() {
		if kf.State == "open" && kf.Property == id {
			kfs[kf.Tag] = kf
		}
	}
	type buildRes struct {
		bin string
		err error
	}
	bc := make(chan buildRes, 1)
	go func() {
		b, err := buildRaceBinary(pkg, liveFiles)
		bc <- buildRes{b, err}
	}()
	methods := map[int]*c12Method{}
	var problems []string
	var reports []harnessReport
	states, trans := 0, 0
	var samples []interface{}
	funcs := map[string]int{}
	for _, hc := range hcfgs {
		mi := hc.Params["method"]
		ex := &Explorer{prog: prog, pkg: pkg, harness: hc.Name, params: hc.Params, workers: workers, solver: "z3",
			timeoutMs: 60000, unwind: 200, maxSteps: 2_000_000_000, witnessN: 1, keepTracks: true, seed: seed}
		if hc.Unwind > 0 {
			ex.unwind = hc.Unwind
		}
		st := ex.Run()
		m := methods[mi]
		if m == nil {
			m = &c12Method{Index: mi, Accesses: map[c12Access]bool{}, WriteHeld: map[string]bool{}, Params: hc.Params,
				AccessVec: map[c12Access][]ReplayVal{}, AccessPar: map[c12Access]map[string]int{}, IntraVec: map[string][]ReplayVal{}, IntraPar: map[string]map[string]int{}}
			methods[mi] = m
		}
		for _, t := range st.Tracks {
			m.Name = t.name
		}
		summarizeTracks(m, st.Tracks)
		if len(st.Witnesses) > 0 && m.Vector == nil {
			m.Vector = st.Witnesses[0].Vector
			m.Params = st.Witnesses[0].Params
		}
		rep := harnessReport{Name: fmt.Sprintf("%s[method=%d %s]", hc.Name, mi, m.Name), Params: hc.Params, Solver: "z3", Paths: st.Paths, Done: st.Done,
			Forks: st.Forks, Pruned: st.Pruned, Asserts: st.Asserts, Folded: st.Folded, AssertQueries: st.AssertQueries, PanicPaths: st.PanicPaths,
			ErrorPaths: st.ErrorPaths, Queries: st.Solver.ByKind, SolverS: st.Solver.Time.Seconds(), WallS: st.Wall.Seconds(), Steps: st.Steps, Reached: st.Reached, Unwind: ex.unwind}
		reports = append(reports, rep)
		states += st.Done
		trans += st.Forks
		for f, c := range st.Funcs {
			funcs[f] += c
		}
		for _, e := range st.Errors {
			problems = append(problems, hc.Name+": "+e)
		}
		if st.Done == 0 {
			problems = append(problems, fmt.Sprintf("%s method %d: no path completed", hc.Name, mi))
		}
		for _, v := range st.Violations {
			if v.Kind == "panic" || v.Kind == "unwind" {
				problems = append(problems, fmt.Sprintf("method %d: %s %s on the sequential path (not a C12 subject; see C04/C13)", mi, v.Kind, truncate(v.ID, 120)))
			}
		}
	}
	var idxs []int
	for i := range methods {
		idxs = append(idxs, i)
	}
	sort.Ints(idxs)
	// step 2: schedule queries
	z, err := NewSolver("z3", 20000)
	if err != nil {
		inconclusive("cannot start z3: %v", err)
	}
	defer z.Close()
	z.send("(declare-const acqA Int)(declare-const relA Int)(declare-const ta Int)(declare-const acqB Int)(declare-const relB Int)(declare-const tb Int)\n")
	queries := 0
	var solverTime time.Duration
	var findings []c12Finding
	for _, i := range idxs {
		for _, v := range methods[i].Intra {
			// the two pretty-printers are assembled from public getters (one critical section each) by
			// the package-level String/AllSubTreesToString; the property lists the queries that must
			// answer for one state and debug formatting is not among them
			if strings.Contains(v, "critical sections") && (methods[i].Name == "String" || methods[i].Name == "AllSubTreesToString") {
				continue
			}
			findings = append(findings, c12Finding{intra: v, Kind: "discipline", A: i, B: 0, Detail: methods[i].Name + ": " + v})
		}
	}
	pairs := 0
	for _, i := range idxs {
		for _, j := range idxs {
			pairs++
			findings = append(findings, c12Pairs(z, methods[i], methods[j], &queries, &solverTime)...)
		}
	}
	// one representative finding per (kind, A, B)
	rep := map[string]c12Finding{}
	var repKeys []string
	for _, f := range findings {
		k := fmt.Sprintf("%s|%d|%d", f.Kind, f.A, f.B)
		if f.Kind != "discipline" && f.A > f.B {
			k = fmt.Sprintf("%s|%d|%d", f.Kind, f.B, f.A)
		}
		if _, ok := rep[k]; !ok {
			rep[k] = f
			repKeys = append(repKeys, k)
		}
	}
	sort.Strings(repKeys)
	// step 3: native replay under the race detector
	br := <-bc
	if br.err != nil && len(repKeys) > 0 {
		problems = append(problems, br.err.Error())
	}
	nViol := 0
	var vioLines, kfLines []string
	validated := 0
	kfSeen := map[string]bool{}
	for _, k := range repKeys {
		f := rep[k]
		if br.err != nil {
			break
		}
		a, b := f.A, f.B
		if f.Kind == "discipline" {
			b = -1 // pair the offending method with a writer that keeps asking for the lock
			if strings.Contains(f.intra, "critical sections") {
				b = -2 // one call against a writer that takes the lock whenever it is free
			}
		}
		ma := methods[a]
		if ma == nil || ma.Vector == nil {
			problems = append(problems, "no witness vector for method "+fmt.Sprint(a))
			continue
		}
		// inputs of a path of A that really performs the access in question
		vec, par := ma.Vector, ma.Params
		if f.Kind == "discipline" && ma.IntraVec[f.intra] != nil {
			vec = ma.IntraVec[f.intra]
			if p := ma.IntraPar[f.intra]; p != nil {
				par = p
			}
		} else if v := ma.AccessVec[f.accA]; v != nil {
			vec, par = v, ma.AccessPar[f.accA]
		}
		vf := filepath.Join(outDir(), "replay", fmt.Sprintf("C12-pair-%d-%d.json", a, b))
		vb, _ := json.Marshal(map[string]interface{}{"harness": "HarnessC12Method", "vector": vec, "params": par, "pair": []int{a, b}, "finding": f})
		os.WriteFile(vf, vb, 0o644)
		res := runRacePair(br.bin, vf, a, b)
		f.ReplayF = vf
		f.Repro = res
		// which known finding (if any) names exactly this pair of methods
		tag := ""
		for t, kf := range kfs {
			if strings.Contains(kf.What, "["+methods[a].Name+"]") && (f.Kind == "discipline" || (methods[b] != nil && strings.Contains(kf.What, "["+methods[b].Name+"]")) || strings.Contains(kf.What, "[any]")) {
				tag = t
			}
		}
		switch {
		case res == "":
			problems = append(problems, fmt.Sprintf("schedule model for %s (%s) did not reproduce under the race detector; replay=%s", f.Kind, f.Detail, vf))
		case strings.HasPrefix(res, "inconclusive"):
			problems = append(problems, fmt.Sprintf("race replay of %s: %s", f.Detail, res))
		case tag != "":
			validated++
			if !kfSeen[tag] {
				kfSeen[tag] = true
				kfLines = append(kfLines, fmt.Sprintf("KNOWN-FINDING: property=%s %s [%s; %s; native: %s; replay=%s]", id, kfs[tag].What, tag, f.Detail, res, vf))
			}
		default:
			validated++
			nViol++
			keep := filepath.Join(scratchRoot(), "out", "violations")
			os.MkdirAll(keep, 0o755)
			dst := filepath.Join(keep, filepath.Base(vf))
			os.WriteFile(dst, vb, 0o644)
			vioLines = append(vioLines, fmt.Sprintf("VIOLATION property=%s replay=%s", id, dst))
			fmt.Printf("violation detail: %s: %s; native: %s\n", f.Kind, f.Detail, res)
		}
		rep[k] = f
	}
	// a clean pair run as reachability witness of the replay machinery
	if br.err == nil && len(idxs) > 0 {
		for _, pr := range [][2]int{{7, 10}, {0, 7}} {
			if methods[pr[0]] != nil && methods[pr[1]] != nil && methods[pr[0]].Vector != nil {
				vf := filepath.Join(outDir(), "replay", fmt.Sprintf("C12-pair-%d-%d.json", pr[0], pr[1]))
				vb, _ := json.Marshal(map[string]interface{}{"harness": "HarnessC12Method", "vector": methods[pr[0]].Vector, "params": methods[pr[0]].Params})
				os.WriteFile(vf, vb, 0o644)
				if res := runRacePair(br.bin, vf, pr[0], pr[1]); res == "" {
					validated++
				} else if !strings.HasPrefix(res, "inconclusive") {
					// a race here would have been predicted by the schedule queries
					found := false
					for _, k := range repKeys {
						f := rep[k]
						if (f.A == pr[0] && f.B == pr[1]) || (f.A == pr[1] && f.B == pr[0]) {
							found = true
						}
					}
					if !found {
						problems = append(problems, fmt.Sprintf("native race run of methods %d,%d reports %q but no schedule query was sat: encoding incomplete", pr[0], pr[1], res))
					}
				} else {
					problems = append(problems, "race replay: "+res)
				}
			}
		}
	} else if br.err != nil {
		problems = append(problems, br.err.Error())
	}
	var msum []map[string]interface{}
	for _, i := range idxs {
		m := methods[i]
		msum = append(msum, map[string]interface{}{"method": m.Name, "paths": m.Paths, "accesses": sortedAccesses(m), "lock_discipline_violations": m.Intra})
	}
	var flist []interface{}
	for _, k := range repKeys {
		flist = append(flist, rep[k])
	}
	var fnames []string
	for f, c := range funcs {
		if strings.Contains(f, "utreexo") && !strings.Contains(f, "verif") && !strings.Contains(f, ".Harness") {
			fnames = append(fnames, fmt.Sprintf("%s (x%d)", strings.Replace(f, upkg, "utreexo", -1), c))
		}
	}
	sort.Strings(fnames)
	samples = append(samples, map[string]interface{}{"method_summaries": msum})
	ev := &Evidence{PropertyID: id, Tier: tier, Seed: seed, Level: "model_checking", Assumptions: cfg.Assumptions,
		Coverage: map[string]interface{}{
			"states": states, "transitions": trans + queries, "traces_validated_against_impl": validated, "samples": samples,
			"explanation":               "states = completed symbolic paths of single methods with their lock/access logs; transitions = fork decisions + schedule queries; each schedule query has one Int timestamp per event (acquire, access, release) of two threads",
			"harnesses":                 reports,
			"functions_encoded":         fnames,
			"method_pairs":              pairs,
			"schedule_queries":          queries,
			"schedule_solver_s":         solverTime.Seconds(),
			"findings":                  flist,
			"bounds":                    cfg.Bounds[tier],
			"symbolic_dimensions":       cfg.Symbolic,
			"case_split_dimensions":     cfg.CaseSplit,
			"stubs":                     cfg.Stubs,
			"outside_claim":             cfg.Outside,
			"known_findings_reproduced": kfLines,
			"problems":                  problems,
			"exhaustive":                false,
		},
		WallS: time.Since(t0).Seconds(), Violations: nViol}
	writeEvidence(ev)
	for _, l := range kfLines {
		fmt.Println(l)
	}
	for _, l := range vioLines {
		fmt.Println(l)
	}
	fmt.Printf("property=%s tier=%s methods=%d pairs=%d schedule_queries=%d findings=%d replayed=%d violations=%d wall=%.1fs\n", id, tier, len(idxs), pairs, queries, len(repKeys), validated, nViol, time.Since(t0).Seconds())
	if nViol > 0 {
		os.Exit(1)
	}
	if len(problems) > 0 {
		for _, p := range problems {
			fmt.Println("INCONCLUSIVE:", p)
		}
		os.Exit(2)
	}
}
