package main

func cmdCheck(args []string)  {}
func cmdReplay(args []string) {}
