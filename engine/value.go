package main

// Values and memory cells of the symbolic interpreter.

import (
	"fmt"
	"go/types"

	"golang.org/x/tools/go/ssa"
)

// Value kinds:
//   *Term     scalar: bool, integers, Hash/[32]byte and miniHash (sort H)
//   Ptr       pointer to a cell (or nil), optionally to one byte of a hash cell
//   Slice     view on an array cell
//   *Struct   struct value (immutable copy)
//   *Array    array value of non-hash arrays (immutable copy)
//   Tuple     multiple results
//   Iface     non-error interface value
//   Err       error interface value with symbolic nil-ness
//   *Closure  function value with bindings
//   *MapObj   map (reference)
//   Str       string (opaque unless known)
//   *ssa.Function, *ssa.Builtin
type Value interface{}

type Cell struct {
	v    Value
	kids []*Cell
	typ  types.Type
	// owned marks caller-owned memory for C17 (snapshot id), 0 = none
	id int
}

type Ptr struct {
	c  *Cell
	hb int // >=0: byte index inside a hash leaf cell; -1 otherwise
}

var nilPtr = Ptr{nil, -1}

type Slice struct {
	arr           *Cell
	off, len, cap int
	hview         bool // arr is a hash leaf cell viewed as bytes
}

type Struct struct{ f []Value }
type Array struct{ e []Value }
type Tuple []Value
type Iface struct {
	t types.Type // nil => nil interface
	v Value
}
type Err struct {
	nonNil *Term
	tag    string
}
type Closure struct {
	fn    *ssa.Function
	binds []Value
}
type Str struct {
	s     string
	known bool
}

type MapObj struct {
	keys  []*Term
	vals  []Value
	alive []bool
	n     int // live count
	kt    types.Type
	vt    types.Type
	id    int
}

type MapIter struct {
	m   *MapObj
	pos int
	max int
	// for strings (range over string) unsupported
}

func isHashArray(t types.Type) bool {
	a, ok := t.Underlying().(*types.Array)
	if !ok {
		return false
	}
	b, ok := a.Elem().Underlying().(*types.Basic)
	if !ok || (b.Kind() != types.Uint8 && b.Kind() != types.Byte) {
		return false
	}
	return a.Len() == 32 || a.Len() == 12
}

func isErrorType(t types.Type) bool {
	if n, ok := t.(*types.Named); ok {
		return n.Obj().Name() == "error" && n.Obj().Pkg() == nil
	}
	return false
}

func basicWidth(b *types.Basic) (w int, signed bool, ok bool) {
	switch b.Kind() {
	case types.Int8:
		return 8, true, true
	case types.Int16:
		return 16, true, true
	case types.Int32:
		return 32, true, true
	case types.Int64, types.Int, types.UntypedInt, types.UntypedRune:
		return 64, true, true
	case types.Uint8:
		return 8, false, true
	case types.Uint16:
		return 16, false, true
	case types.Uint32:
		return 32, false, true
	case types.Uint64, types.Uint, types.Uintptr:
		return 64, false, true
	}
	return 0, false, false
}

func (in *Interp) zero(t types.Type) Value {
	if isErrorType(t) {
		return Err{nonNil: in.tt.False}
	}
	switch u := t.Underlying().(type) {
	case *types.Basic:
		if u.Info()&types.IsBoolean != 0 {
			return in.tt.False
		}
		if w, _, ok := basicWidth(u); ok {
			return in.tt.BV(w, 0)
		}
		if u.Info()&types.IsString != 0 {
			return Str{"", true}
		}
		if u.Kind() == types.UnsafePointer || u.Kind() == types.UntypedNil {
			return nilPtr
		}
		if u.Info()&types.IsFloat != 0 {
			return in.tt.BV(64, 0)
		}
		panic(fmt.Sprintf("zero: unsupported basic %v", u))
	case *types.Pointer:
		return nilPtr
	case *types.Slice:
		return Slice{}
	case *types.Map:
		return (*MapObj)(nil)
	case *types.Interface:
		return Iface{}
	case *types.Signature:
		return (*Closure)(nil)
	case *types.Struct:
		s := &Struct{f: make([]Value, u.NumFields())}
		for i := range s.f {
			s.f[i] = in.zero(u.Field(i).Type())
		}
		return s
	case *types.Array:
		if isHashArray(t) {
			return in.tt.HZero
		}
		a := &Array{e: make([]Value, u.Len())}
		for i := range a.e {
			a.e[i] = in.zero(u.Elem())
		}
		return a
	case *types.Chan:
		return nilPtr
	case *types.Tuple:
		tu := make(Tuple, u.Len())
		for i := range tu {
			tu[i] = in.zero(u.At(i).Type())
		}
		return tu
	}
	panic(fmt.Sprintf("zero: unsupported type %v", t))
}

func (in *Interp) newCell(t types.Type) *Cell {
	in.cellCount++
	c := &Cell{typ: t, id: in.cellCount}
	switch u := t.Underlying().(type) {
	case *types.Struct:
		c.kids = make([]*Cell, u.NumFields())
		for i := range c.kids {
			c.kids[i] = in.newCell(u.Field(i).Type())
		}
	case *types.Array:
		if isHashArray(t) {
			c.v = in.tt.HZero
		} else {
			c.kids = make([]*Cell, u.Len())
			for i := range c.kids {
				c.kids[i] = in.newCell(u.Elem())
			}
		}
	default:
		c.v = in.zero(t)
	}
	return c
}

// newArrayCell allocates backing storage for n elements of type et.
func (in *Interp) newArrayCell(et types.Type, n int) *Cell {
	in.cellCount++
	c := &Cell{typ: types.NewArray(et, int64(n)), id: in.cellCount}
	c.kids = make([]*Cell, n)
	for i := range c.kids {
		c.kids[i] = in.newCell(et)
	}
	return c
}

func (in *Interp) load(c *Cell) Value {
	if c.kids == nil {
		if c.v == nil {
			// zero-length array or struct
			return in.zero(c.typ)
		}
		return c.v
	}
	switch c.typ.Underlying().(type) {
	case *types.Struct:
		s := &Struct{f: make([]Value, len(c.kids))}
		for i, k := range c.kids {
			s.f[i] = in.load(k)
		}
		return s
	case *types.Array:
		a := &Array{e: make([]Value, len(c.kids))}
		for i, k := range c.kids {
			a.e[i] = in.load(k)
		}
		return a
	}
	panic("load: bad cell")
}

func (in *Interp) store(c *Cell, v Value) {
	if c.kids == nil {
		switch c.typ.Underlying().(type) {
		case *types.Struct, *types.Array:
			if !isHashArray(c.typ) {
				return // zero-size aggregate
			}
		}
		c.v = v
		in.noteWrite(c)
		return
	}
	switch x := v.(type) {
	case *Struct:
		for i, k := range c.kids {
			in.store(k, x.f[i])
		}
	case *Array:
		for i, k := range c.kids {
			in.store(k, x.e[i])
		}
	default:
		panic(fmt.Sprintf("store: aggregate cell gets %T", v))
	}
}

// hashBytes returns the 32 (or 12) byte terms of a hash term.
func (in *Interp) hashBytes(h *Term, n int) []*Term {
	bs := make([]*Term, n)
	for i := range bs {
		bs[i] = in.tt.HByte(h, i)
	}
	return bs
}

// sliceGet reads element i (0-based in the slice).
func (in *Interp) sliceGet(s Slice, i int) Value {
	if s.hview {
		return in.tt.HByte(s.arr.v.(*Term), s.off+i)
	}
	return in.load(s.arr.kids[s.off+i])
}

func (in *Interp) sliceSet(s Slice, i int, v Value) {
	if s.hview {
		in.setHashByte(s.arr, s.off+i, v.(*Term))
		return
	}
	in.store(s.arr.kids[s.off+i], v)
}

func (in *Interp) setHashByte(c *Cell, i int, b *Term) {
	h := c.v.(*Term)
	bs := in.hashBytes(h, 32)
	bs[i] = b
	c.v = in.tt.HFromBytes(bs)
	in.noteWrite(c)
}

func valueString(v Value) string {
	switch x := v.(type) {
	case nil:
		return "<nil>"
	case *Term:
		return x.String()
	case Ptr:
		if x.c == nil {
			return "nilptr"
		}
		return fmt.Sprintf("ptr(c%d)", x.c.id)
	case Slice:
		return fmt.Sprintf("slice(len=%d,cap=%d)", x.len, x.cap)
	case *Struct:
		s := "{"
		for i, f := range x.f {
			if i > 0 {
				s += ", "
			}
			s += valueString(f)
		}
		return s + "}"
	case Err:
		return "err(" + x.nonNil.String() + ")"
	case Str:
		return fmt.Sprintf("%q", x.s)
	}
	return fmt.Sprintf("%T", v)
}
