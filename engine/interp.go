package main

// Path-based symbolic interpreter over go/ssa.

import (
	"fmt"
	"go/constant"
	"go/token"
	"go/types"
	"strings"

	"golang.org/x/tools/go/ssa"
)

type fnInfo struct {
	idx map[ssa.Value]int
	n   int
}

// pathEnd is thrown (via panic) to terminate the current path.
type pathEnd struct {
	status string // "infeasible", "violation", "panic", "unwind", "error", "done"
	msg    string
}

type deferred struct {
	fn    Value
	args  []Value
	instr *ssa.Defer
}

type frame struct {
	fn      *ssa.Function
	env     []Value
	info    *fnInfo
	defers  []deferred
	symIter map[int]int
}

// InputRec records one nondeterministic input of the path, in execution order.
type InputRec struct {
	Kind string // u64,u8,bool,int,hash,leaf,choose
	Name string
	T    *Term // variable term (nil for choose)
	C    int   // chosen value for choose
}

type Obs struct {
	Tag string
	T   *Term
}

type Interp struct {
	prog      *ssa.Program
	pkg       *ssa.Package
	tt        *TT
	sol       *Solver
	pc        []*Term
	ctl       *PathCtl
	globals   map[*ssa.Global]*Cell
	fnInfos   map[*ssa.Function]*fnInfo
	cellCount int
	varCount  int
	inputs    []InputRec
	obs       []Obs
	params    map[string]int
	steps     int64
	maxSteps  int64
	unwind    int
	depth     int
	stack     []*frame
	reached   []string
	asserts   int
	folded    int
	forks     int
	funcsSeen map[*ssa.Function]int
	errTag    int
	locks     map[*Cell]*lockState
	events    []lockEvent
	track     *trackState
	owned     []*ownRec
	curInstr  ssa.Instruction
	// hooks set by the explorer
	onViolation func(in *Interp, kind, id string, neg *Term) // called with the negated assertion (nil = definite)
	merging     int
	mapReverse  bool
	paramsUsed  map[string]int
	sortLong    int
	tracks      []*trackState
	unknownFeas int
	pruned      int
	mapIDs      int
	openKF      map[string]KnownFinding
	kfTag       string
}

func (in *Interp) info(fn *ssa.Function) *fnInfo {
	if fi, ok := in.fnInfos[fn]; ok {
		return fi
	}
	fi := &fnInfo{idx: map[ssa.Value]int{}}
	add := func(v ssa.Value) {
		fi.idx[v] = fi.n
		fi.n++
	}
	for _, p := range fn.Params {
		add(p)
	}
	for _, fv := range fn.FreeVars {
		add(fv)
	}
	for _, b := range fn.Blocks {
		for _, i := range b.Instrs {
			if v, ok := i.(ssa.Value); ok {
				add(v)
			}
		}
	}
	in.fnInfos[fn] = fi
	return fi
}

func (in *Interp) end(status, format string, a ...interface{}) {
	panic(pathEnd{status, fmt.Sprintf(format, a...)})
}

func (in *Interp) where() string {
	var sb strings.Builder
	for i := len(in.stack) - 1; i >= 0 && i >= len(in.stack)-6; i-- {
		sb.WriteString(in.stack[i].fn.Name())
		sb.WriteString("<")
	}
	if in.curInstr != nil {
		p := in.prog.Fset.Position(in.curInstr.Pos())
		if p.IsValid() {
			fmt.Fprintf(&sb, " @%s:%d", shortFile(p.Filename), p.Line)
		}
	}
	return sb.String()
}

func shortFile(f string) string {
	if i := strings.LastIndex(f, "/"); i >= 0 {
		return f[i+1:]
	}
	return f
}

// goPanic models a Go run-time panic on the current (feasible) path.
func (in *Interp) goPanic(format string, a ...interface{}) {
	msg := fmt.Sprintf(format, a...) + " at " + in.where()
	if in.onViolation != nil {
		in.onViolation(in, "panic", msg, nil)
	}
	in.end("panic", "%s", msg)
}

func (in *Interp) addPC(c *Term) {
	if c.IsTrue() {
		return
	}
	in.pc = append(in.pc, c)
	in.learn(c)
}

func (in *Interp) learn(c *Term) {
	switch c.op {
	case ONot:
		if e := c.args[0]; e.op == OEq {
			in.tt.MarkDistinct(e.args[0], e.args[1])
		}
	case OAnd:
		for _, a := range c.args {
			in.learn(a)
		}
	}
}

func (in *Interp) fresh(prefix string, s Sort) *Term {
	in.varCount++
	return in.tt.Var(fmt.Sprintf("%s!%d", prefix, in.varCount), s)
}

// branch decides a symbolic condition, forking if both sides are feasible.
func (in *Interp) branch(c *Term, kind string) bool {
	if c.IsTrue() {
		return true
	}
	if c.IsFalse() {
		return false
	}
	if d, ok := in.ctl.next(); ok {
		switch d {
		case 0:
			in.addPC(in.tt.Not(c))
			return false
		case 1:
			in.addPC(c)
			return true
		case 2:
			return false
		case 3:
			return true
		}
		in.end("error", "bad decision %d at branch", d)
	}
	in.forks++
	rt := in.sol.Check(in.pc, "feas", c)
	if rt == RUnsat {
		in.pruned++
		in.ctl.record(2)
		return false
	}
	rf := in.sol.Check(in.pc, "feas", in.tt.Not(c))
	if rf == RUnsat {
		in.pruned++
		in.ctl.record(3)
		return true
	}
	if rt == RUnknown || rf == RUnknown {
		in.unknownFeas++
	}
	// both feasible: take true now, false later
	in.ctl.fork(1, 0)
	in.addPC(c)
	return true
}

// choose makes an n-way case split without consulting the solver.
func (in *Interp) choose(n int) int {
	if n <= 0 {
		in.end("infeasible", "empty choice")
	}
	if n == 1 {
		return 0
	}
	if d, ok := in.ctl.next(); ok {
		return int(d)
	}
	alts := make([]int32, 0, n-1)
	for i := 1; i < n; i++ {
		alts = append(alts, int32(i))
	}
	in.forks++ // a case split is a fork decision too (counted once, where it is first taken)
	in.ctl.fork(0, alts...)
	return 0
}

// concretize turns a term into a Go integer, forking over its feasible values if needed.
func (in *Interp) concretize(t *Term, what string) uint64 {
	for {
		if t.IsConst() {
			return t.val
		}
		if d, ok := in.ctl.next(); ok {
			// decision encodes: the value itself follows as two more decisions (hi, lo 31 bits each) – keep simple:
			lo, _ := in.ctl.next()
			hi, _ := in.ctl.next()
			v := uint64(uint32(lo)) | uint64(uint32(hi))<<32
			cv := in.tt.BV(int(t.sort.W), v)
			if d == 1 {
				in.addPC(in.tt.Eq(t, cv))
				return v
			} else if d == 3 {
				return v
			}
			in.addPC(in.tt.Not(in.tt.Eq(t, cv)))
			continue
		}
		in.forks++
		res, mv := in.sol.Model(in.pc, "concretize", []*Term{t})
		if res != RSat {
			in.end("error", "concretize(%s): path condition not sat (%v)", what, res)
		}
		v := mv[0].U
		cv := in.tt.BV(int(t.sort.W), v)
		eq := in.tt.Eq(t, cv)
		r2 := in.sol.Check(in.pc, "concretize", in.tt.Not(eq))
		if r2 == RUnsat {
			in.ctl.record(3)
			in.ctl.record(int32(uint32(v)))
			in.ctl.record(int32(uint32(v >> 32)))
			return v
		}
		// fork: equal now, different later
		in.ctl.forkSeq([]int32{1, int32(uint32(v)), int32(uint32(v >> 32))}, []int32{0, int32(uint32(v)), int32(uint32(v >> 32))})
		in.addPC(eq)
		return v
	}
}

func (in *Interp) concreteInt(v Value, what string) int {
	t := v.(*Term)
	u := in.concretize(t, what)
	return int(signExt(u, t.sort.W))
}

// ---- constants ----

func (in *Interp) constValue(c *ssa.Const) Value {
	t := c.Type()
	if c.Value == nil {
		return in.zero(t)
	}
	switch u := t.Underlying().(type) {
	case *types.Basic:
		if u.Info()&types.IsBoolean != 0 {
			return in.tt.Bool(constant.BoolVal(c.Value))
		}
		if w, _, ok := basicWidth(u); ok {
			if i64, exact := constant.Int64Val(constant.ToInt(c.Value)); exact {
				return in.tt.BV(w, uint64(i64))
			}
			u64, _ := constant.Uint64Val(constant.ToInt(c.Value))
			return in.tt.BV(w, u64)
		}
		if u.Info()&types.IsString != 0 {
			return Str{constant.StringVal(c.Value), true}
		}
		if u.Info()&types.IsFloat != 0 {
			return in.tt.BV(64, 0)
		}
	}
	panic(fmt.Sprintf("constValue: unsupported %v : %v", c, t))
}

func (in *Interp) get(fr *frame, v ssa.Value) Value {
	switch x := v.(type) {
	case *ssa.Const:
		return in.constValue(x)
	case *ssa.Global:
		return Ptr{in.global(x), -1}
	case *ssa.Function:
		return &Closure{fn: x}
	case *ssa.Builtin:
		return x
	}
	i, ok := fr.info.idx[v]
	if !ok {
		panic(fmt.Sprintf("get: unknown value %v (%T) in %s", v, v, fr.fn))
	}
	r := fr.env[i]
	if r == nil {
		panic(fmt.Sprintf("get: unset value %s = %v in %s", v.Name(), v, fr.fn))
	}
	return r
}

func (in *Interp) global(g *ssa.Global) *Cell {
	if c, ok := in.globals[g]; ok {
		return c
	}
	et := g.Type().(*types.Pointer).Elem()
	c := in.newCell(et)
	if isErrorType(et) {
		c.v = Err{nonNil: in.tt.True, tag: g.Pkg.Pkg.Path() + "." + g.Name()}
	}
	in.globals[g] = c
	return c
}

// ---- calls ----

func (in *Interp) call(fnv Value, args []Value, site ssa.Instruction) Value {
	switch f := fnv.(type) {
	case *Closure:
		if f == nil {
			in.goPanic("call of nil func")
		}
		return in.callFunc(f.fn, args, f.binds)
	case *ssa.Builtin:
		return in.builtin(f, args, site)
	}
	panic(fmt.Sprintf("call: bad function value %T", fnv))
}

func (in *Interp) callFunc(fn *ssa.Function, args []Value, binds []Value) (ret Value) {
	name := fn.String()
	if fn.Origin() != nil {
		name = fn.Origin().String()
	}
	if h, ok := intercepts[name]; ok {
		return h(in, fn, args)
	}
	if fn.Blocks == nil {
		if h := interceptByPkg(fn); h != nil {
			return h(in, fn, args)
		}
		in.end("error", "call of external function without model: %s at %s", name, in.where())
	}
	if in.depth > 400 {
		in.end("unwind", "recursion depth exceeded in %s", name)
	}
	in.funcsSeen[fn]++
	fi := in.info(fn)
	fr := &frame{fn: fn, env: make([]Value, fi.n), info: fi}
	for i, p := range fn.Params {
		fr.env[fi.idx[p]] = args[i]
	}
	for i, fv := range fn.FreeVars {
		fr.env[fi.idx[fv]] = binds[i]
	}
	in.depth++
	in.stack = append(in.stack, fr)
	defer func() {
		in.depth--
		in.stack = in.stack[:len(in.stack)-1]
	}()

	block := fn.Blocks[0]
	var prev *ssa.BasicBlock
	for {
		next, r, done := in.runBlock(fr, block, prev)
		if done {
			return r
		}
		// back edge: a new iteration of the loop headed by next starts; loops nested in it start afresh
		if fr.symIter != nil && next.Dominates(block) {
			for k := range fr.symIter {
				if k != next.Index && next.Dominates(fn.Blocks[k]) {
					delete(fr.symIter, k)
				}
			}
		}
		prev, block = block, next
	}
}

func (in *Interp) runBlock(fr *frame, block, prev *ssa.BasicBlock) (next *ssa.BasicBlock, ret Value, done bool) {
	instrs := block.Instrs
	i := 0
	// phis are evaluated simultaneously
	if len(instrs) > 0 {
		if _, ok := instrs[0].(*ssa.Phi); ok {
			pi := -1
			for k, p := range block.Preds {
				if p == prev {
					pi = k
					break
				}
			}
			var vals []Value
			for ; i < len(instrs); i++ {
				phi, ok := instrs[i].(*ssa.Phi)
				if !ok {
					break
				}
				vals = append(vals, in.get(fr, phi.Edges[pi]))
			}
			for k := 0; k < i; k++ {
				fr.env[fr.info.idx[instrs[k].(*ssa.Phi)]] = vals[k]
			}
		}
	}
	for ; i < len(instrs); i++ {
		in.steps++
		if in.steps > in.maxSteps {
			in.end("error", "step limit exceeded at %s", in.where())
		}
		in.curInstr = instrs[i]
		switch x := instrs[i].(type) {
		case *ssa.If:
			c := in.get(fr, x.Cond).(*Term)
			if !c.IsConst() {
				if fr.symIter == nil {
					fr.symIter = map[int]int{}
				}
				fr.symIter[block.Index]++
				if fr.symIter[block.Index] > in.unwind {
					msg := fmt.Sprintf("unwinding bound %d exceeded at %s", in.unwind, in.where())
					if in.onViolation != nil {
						in.onViolation(in, "unwind", msg, nil)
					}
					in.end("unwind", "%s", msg)
				}
			}
			if in.branch(c, "if") {
				return block.Succs[0], nil, false
			}
			return block.Succs[1], nil, false
		case *ssa.Jump:
			return block.Succs[0], nil, false
		case *ssa.Return:
			switch len(x.Results) {
			case 0:
				return nil, nil, true
			case 1:
				return nil, in.get(fr, x.Results[0]), true
			}
			t := make(Tuple, len(x.Results))
			for k, r := range x.Results {
				t[k] = in.get(fr, r)
			}
			return nil, t, true
		case *ssa.Panic:
			in.goPanic("explicit panic")
		case *ssa.RunDefers:
			for k := len(fr.defers) - 1; k >= 0; k-- {
				d := fr.defers[k]
				in.call(d.fn, d.args, d.instr)
			}
			fr.defers = nil
		case *ssa.Defer:
			fnv, args := in.prepareCall(fr, &x.Call)
			fr.defers = append(fr.defers, deferred{fnv, args, x})
		case *ssa.Store:
			in.doStore(in.get(fr, x.Addr).(Ptr), in.get(fr, x.Val))
		case *ssa.MapUpdate:
			m := in.get(fr, x.Map).(*MapObj)
			if m == nil {
				in.goPanic("assignment to entry in nil map")
			}
			in.mapSet(m, in.get(fr, x.Key).(*Term), in.get(fr, x.Value))
		case *ssa.DebugRef:
		case *ssa.Go, *ssa.Send, *ssa.Select:
			in.end("error", "unsupported instruction %T at %s", x, in.where())
		case ssa.Value:
			fr.env[fr.info.idx[x]] = in.eval(fr, x)
		default:
			in.end("error", "unsupported instruction %T at %s", x, in.where())
		}
	}
	in.end("error", "block without terminator in %s", fr.fn)
	return
}

func (in *Interp) doStore(p Ptr, v Value) {
	if p.c == nil {
		in.goPanic("nil pointer dereference (store)")
	}
	if p.hb >= 0 {
		in.setHashByte(p.c, p.hb, v.(*Term))
		return
	}
	in.store(p.c, v)
}

func (in *Interp) doLoad(p Ptr) Value {
	if p.c == nil {
		in.goPanic("nil pointer dereference (load)")
	}
	in.noteRead(p.c)
	if p.hb >= 0 {
		return in.tt.HByte(p.c.v.(*Term), p.hb)
	}
	return in.load(p.c)
}

func (in *Interp) prepareCall(fr *frame, c *ssa.CallCommon) (Value, []Value) {
	if c.Method != nil {
		recv := in.get(fr, c.Value)
		args := make([]Value, 0, len(c.Args)+1)
		var fnv Value
		switch r := recv.(type) {
		case Iface:
			if r.t == nil {
				in.goPanic("method call on nil interface")
			}
			ms := in.prog.MethodSets.MethodSet(r.t)
			sel := ms.Lookup(c.Method.Pkg(), c.Method.Name())
			if sel == nil {
				in.end("error", "method %s not found on %v", c.Method.Name(), r.t)
			}
			fnv = &Closure{fn: in.prog.MethodValue(sel)}
			args = append(args, r.v)
		case Err:
			// error.Error()
			fnv = &Closure{fn: nil}
			return errMethod{r}, nil
		default:
			in.end("error", "invoke on %T", recv)
		}
		for _, a := range c.Args {
			args = append(args, in.get(fr, a))
		}
		return fnv, args
	}
	fnv := in.get(fr, c.Value)
	args := make([]Value, len(c.Args))
	for i, a := range c.Args {
		args[i] = in.get(fr, a)
	}
	return fnv, args
}

type errMethod struct{ e Err }

func (in *Interp) eval(fr *frame, v ssa.Value) Value {
	tt := in.tt
	switch x := v.(type) {
	case *ssa.Alloc:
		return Ptr{in.newCell(x.Type().(*types.Pointer).Elem()), -1}
	case *ssa.BinOp:
		return in.binop(x.Op, in.get(fr, x.X), in.get(fr, x.Y), x.X.Type(), x.Y.Type())
	case *ssa.UnOp:
		a := in.get(fr, x.X)
		switch x.Op {
		case token.MUL:
			return in.doLoad(a.(Ptr))
		case token.SUB:
			return tt.Neg(a.(*Term))
		case token.NOT:
			return tt.Not(a.(*Term))
		case token.XOR:
			return tt.BNot(a.(*Term))
		}
		in.end("error", "unsupported unop %v", x.Op)
	case *ssa.Call:
		fnv, args := in.prepareCall(fr, &x.Call)
		if em, ok := fnv.(errMethod); ok {
			_ = em
			return Str{"<error text>", false}
		}
		r := in.call(fnv, args, x)
		if r == nil {
			return Tuple{}
		}
		return r
	case *ssa.ChangeType:
		return in.get(fr, x.X)
	case *ssa.ChangeInterface:
		return in.get(fr, x.X)
	case *ssa.Convert:
		return in.convert(in.get(fr, x.X), x.X.Type(), x.Type())
	case *ssa.MultiConvert:
		return in.convert(in.get(fr, x.X), x.X.Type(), x.Type())
	case *ssa.MakeInterface:
		val := in.get(fr, x.X)
		if isErrorType(x.Type()) {
			in.errTag++
			return Err{nonNil: tt.True, tag: fmt.Sprintf("mk%d:%v", in.errTag, x.X.Type())}
		}
		return Iface{t: x.X.Type(), v: val}
	case *ssa.Extract:
		return in.get(fr, x.Tuple).(Tuple)[x.Index]
	case *ssa.Field:
		return in.get(fr, x.X).(*Struct).f[x.Field]
	case *ssa.FieldAddr:
		p := in.get(fr, x.X).(Ptr)
		if p.c == nil {
			in.goPanic("nil pointer dereference (field address)")
		}
		return Ptr{p.c.kids[x.Field], -1}
	case *ssa.Index:
		av := in.get(fr, x.X)
		if h, ok := av.(*Term); ok && h.sort.K == KHash {
			idx := in.concreteInt(in.get(fr, x.Index), "hash index")
			return tt.HByte(h, idx)
		}
		if s, ok := av.(Str); ok {
			_ = s
			return tt.BV(8, 0)
		}
		arr := av.(*Array)
		idx := in.indexIn(in.get(fr, x.Index).(*Term), len(arr.e))
		return arr.e[idx]
	case *ssa.IndexAddr:
		base := in.get(fr, x.X)
		switch b := base.(type) {
		case Ptr:
			if b.c == nil {
				in.goPanic("nil pointer dereference (index address)")
			}
			if isHashArray(b.c.typ) {
				idx := in.indexIn(in.get(fr, x.Index).(*Term), 32)
				return Ptr{b.c, idx}
			}
			idx := in.indexIn(in.get(fr, x.Index).(*Term), len(b.c.kids))
			return Ptr{b.c.kids[idx], -1}
		case Slice:
			idx := in.indexIn(in.get(fr, x.Index).(*Term), b.len)
			if b.hview {
				return Ptr{b.arr, b.off + idx}
			}
			return Ptr{b.arr.kids[b.off+idx], -1}
		}
		in.end("error", "IndexAddr on %T", base)
	case *ssa.Lookup:
		mv := in.get(fr, x.X)
		if _, ok := mv.(Str); ok {
			return tt.BV(8, 0)
		}
		m := mv.(*MapObj)
		val, found := in.mapGet(m, in.get(fr, x.Index).(*Term), x.X.Type().Underlying().(*types.Map).Elem())
		if x.CommaOk {
			return Tuple{val, tt.Bool(found)}
		}
		return val
	case *ssa.MakeClosure:
		b := make([]Value, len(x.Bindings))
		for i, bv := range x.Bindings {
			b[i] = in.get(fr, bv)
		}
		return &Closure{fn: x.Fn.(*ssa.Function), binds: b}
	case *ssa.MakeMap:
		mt := x.Type().Underlying().(*types.Map)
		in.mapIDs++
		return &MapObj{kt: mt.Key(), vt: mt.Elem(), id: in.mapIDs}
	case *ssa.MakeSlice:
		n := in.concreteInt(in.get(fr, x.Len), "make len")
		capT := in.get(fr, x.Cap).(*Term)
		if !capT.IsConst() {
			// symbolic capacity: only the allocation size depends on it.  Obligation: it is a legal size;
			// then model the slice with cap == len (append reallocates; contents semantics are unchanged).
			signed := true
			if bt, ok := x.Cap.Type().Underlying().(*types.Basic); ok {
				_, signed, _ = basicWidth(bt)
			}
			var c64 *Term
			if signed {
				c64 = in.tt.Sext(capT, 64)
			} else {
				c64 = in.tt.Zext(capT, 64)
			}
			bad := in.tt.Or(in.tt.Slt(c64, in.tt.BV(64, uint64(n))), in.tt.Slt(in.tt.BV(64, 1<<40), c64))
			if in.branch(bad, "makecap") {
				in.goPanic("makeslice: cap out of range (symbolic)")
			}
			capT = in.tt.BV(int(capT.sort.W), uint64(n))
		}
		c := in.concreteInt(capT, "make cap")
		if n < 0 || c < n || c > 1<<24 {
			in.goPanic("makeslice: len/cap out of range (%d,%d)", n, c)
		}
		et := x.Type().Underlying().(*types.Slice).Elem()
		return Slice{arr: in.newArrayCell(et, c), off: 0, len: n, cap: c}
	case *ssa.Next:
		it := in.get(fr, x.Iter).(*MapIter)
		return in.mapNext(it)
	case *ssa.Range:
		mv := in.get(fr, x.X)
		m, ok := mv.(*MapObj)
		if !ok {
			in.end("error", "range over %T unsupported", mv)
		}
		it := &MapIter{m: m}
		if m != nil {
			it.max = len(m.keys)
		}
		return it
	case *ssa.Slice:
		return in.sliceOp(fr, x)
	case *ssa.TypeAssert:
		val := in.get(fr, x.X)
		ok := false
		var inner Value
		switch iv := val.(type) {
		case Iface:
			if iv.t != nil {
				if types.IsInterface(x.AssertedType) {
					ok = types.Implements(iv.t, x.AssertedType.Underlying().(*types.Interface))
					inner = iv
				} else {
					ok = types.Identical(iv.t, x.AssertedType)
					inner = iv.v
				}
			}
		case Err:
			ok = false
		}
		if x.CommaOk {
			if !ok {
				inner = in.zero(x.AssertedType)
			}
			return Tuple{inner, tt.Bool(ok)}
		}
		if !ok {
			in.goPanic("failed type assertion")
		}
		return inner
	case *ssa.SliceToArrayPointer:
		s := in.get(fr, x.X).(Slice)
		if s.hview && s.off == 0 {
			return Ptr{s.arr, -1}
		}
		in.end("error", "SliceToArrayPointer unsupported shape")
	case *ssa.Phi:
		in.end("error", "phi in the middle of a block")
	}
	in.end("error", "unsupported value instruction %T at %s", v, in.where())
	return nil
}

// indexIn returns a concrete in-range index or raises a panic obligation.
func (in *Interp) indexIn(idx *Term, n int) int {
	if idx.IsConst() {
		i := signExt(idx.val, idx.sort.W)
		if i < 0 || i >= int64(n) {
			in.goPanic("index out of range [%d] with length %d", i, n)
		}
		return int(i)
	}
	// symbolic index: may it be out of range?
	w := int(idx.sort.W)
	oob := in.tt.Not(in.tt.Ult(idx, in.tt.BV(w, uint64(n))))
	if in.branch(oob, "index") {
		in.goPanic("index out of range (symbolic) with length %d", n)
	}
	return int(in.concretize(idx, "index"))
}

func (in *Interp) sliceOp(fr *frame, x *ssa.Slice) Value {
	base := in.get(fr, x.X)
	getInt := func(v ssa.Value, def int) int {
		if v == nil {
			return def
		}
		return in.concreteInt(in.get(fr, v), "slice bound")
	}
	switch b := base.(type) {
	case Slice:
		lo := getInt(x.Low, 0)
		hi := getInt(x.High, b.len)
		max := getInt(x.Max, b.cap)
		if lo < 0 || hi < lo || max < hi || max > b.cap {
			in.goPanic("slice bounds out of range [%d:%d:%d] with capacity %d", lo, hi, max, b.cap)
		}
		if b.arr == nil {
			return Slice{}
		}
		return Slice{arr: b.arr, off: b.off + lo, len: hi - lo, cap: max - lo, hview: b.hview}
	case Ptr:
		if b.c == nil {
			in.goPanic("nil pointer dereference (slice of array pointer)")
		}
		n := len(b.c.kids)
		hv := false
		if isHashArray(b.c.typ) {
			n = int(b.c.typ.Underlying().(*types.Array).Len())
			hv = true
		}
		lo := getInt(x.Low, 0)
		hi := getInt(x.High, n)
		max := getInt(x.Max, n)
		if lo < 0 || hi < lo || max < hi || max > n {
			in.goPanic("slice bounds out of range [%d:%d:%d] with array length %d", lo, hi, max, n)
		}
		return Slice{arr: b.c, off: lo, len: hi - lo, cap: max - lo, hview: hv}
	case Str:
		return Str{"", false}
	}
	in.end("error", "Slice on %T", base)
	return nil
}

// ---- conversions and operators ----

func (in *Interp) convert(v Value, from, to types.Type) Value {
	tt := in.tt
	fb, fok := from.Underlying().(*types.Basic)
	tb, tok := to.Underlying().(*types.Basic)
	if fok && tok {
		fw, fs, fi := basicWidth(fb)
		tw, _, ti := basicWidth(tb)
		if fi && ti {
			t := v.(*Term)
			if tw <= fw {
				return tt.Extract(t, tw-1, 0)
			}
			if fs {
				return tt.Sext(t, tw)
			}
			return tt.Zext(t, tw)
		}
		if tb.Info()&types.IsString != 0 {
			return Str{"", false}
		}
	}
	if tok && tb.Info()&types.IsString != 0 {
		return Str{"", false}
	}
	if _, ok := to.Underlying().(*types.Slice); ok {
		if _, isStr := v.(Str); isStr {
			return Slice{}
		}
		return v
	}
	if _, ok := to.Underlying().(*types.Pointer); ok {
		return v
	}
	in.end("error", "unsupported conversion %v -> %v", from, to)
	return nil
}

func (in *Interp) binop(op token.Token, a, b Value, ta, tb types.Type) Value {
	tt := in.tt
	switch op {
	case token.EQL:
		return in.equal(a, b)
	case token.NEQ:
		return tt.Not(in.equal(a, b))
	}
	if sa, ok := a.(Str); ok {
		sb, _ := b.(Str)
		if op == token.ADD {
			return Str{sa.s + sb.s, sa.known && sb.known}
		}
		in.end("error", "string operator %v unsupported", op)
	}
	x, ok1 := a.(*Term)
	y, ok2 := b.(*Term)
	if !ok1 || !ok2 {
		in.end("error", "binop %v on %T,%T", op, a, b)
	}
	if x.sort.K == KBool {
		switch op {
		case token.AND, token.LAND:
			return tt.And(x, y)
		case token.OR, token.LOR:
			return tt.Or(x, y)
		}
		in.end("error", "bool binop %v", op)
	}
	signed := false
	if bt, ok := ta.Underlying().(*types.Basic); ok {
		_, signed, _ = basicWidth(bt)
	}
	switch op {
	case token.SHL, token.SHR:
		w := int(x.sort.W)
		cw := int(y.sort.W)
		ysigned := false
		if bt, ok := tb.Underlying().(*types.Basic); ok {
			_, ysigned, _ = basicWidth(bt)
		}
		if ysigned {
			neg := tt.Slt(y, tt.BV(cw, 0))
			if in.branch(neg, "shift") {
				in.goPanic("negative shift amount")
			}
		}
		var cnt *Term
		var over *Term = tt.False
		if cw <= w {
			cnt = tt.Zext(y, w)
		} else {
			over = tt.Not(tt.Ult(y, tt.BV(cw, uint64(w))))
			cnt = tt.Extract(y, w-1, 0)
		}
		var r *Term
		if op == token.SHL {
			r = tt.Shl(x, cnt)
			return tt.Ite(over, tt.BV(w, 0), r)
		}
		if signed {
			r = tt.Ashr(x, cnt)
			return tt.Ite(over, tt.Ashr(x, tt.BV(w, uint64(w-1))), r)
		}
		r = tt.Lshr(x, cnt)
		return tt.Ite(over, tt.BV(w, 0), r)
	}
	if x.sort != y.sort {
		in.end("error", "binop %v width mismatch %v %v at %s", op, x.sort, y.sort, in.where())
	}
	w := int(x.sort.W)
	switch op {
	case token.ADD:
		return tt.Add(x, y)
	case token.SUB:
		return tt.Sub(x, y)
	case token.MUL:
		return tt.Mul(x, y)
	case token.QUO, token.REM:
		z := tt.Eq(y, tt.BV(w, 0))
		if in.branch(z, "div") {
			in.goPanic("integer divide by zero")
		}
		if op == token.QUO {
			if signed {
				return tt.bin(OSdiv, x, y)
			}
			return tt.bin(OUdiv, x, y)
		}
		if signed {
			return tt.bin(OSrem, x, y)
		}
		return tt.bin(OUrem, x, y)
	case token.AND:
		return tt.BAnd(x, y)
	case token.OR:
		return tt.BOr(x, y)
	case token.XOR:
		return tt.BXor(x, y)
	case token.AND_NOT:
		return tt.BAnd(x, tt.BNot(y))
	case token.LSS:
		if signed {
			return tt.Slt(x, y)
		}
		return tt.Ult(x, y)
	case token.LEQ:
		if signed {
			return tt.Sle(x, y)
		}
		return tt.Ule(x, y)
	case token.GTR:
		if signed {
			return tt.Slt(y, x)
		}
		return tt.Ult(y, x)
	case token.GEQ:
		if signed {
			return tt.Sle(y, x)
		}
		return tt.Ule(y, x)
	}
	in.end("error", "unsupported binop %v", op)
	return nil
}

func (in *Interp) equal(a, b Value) *Term {
	tt := in.tt
	switch x := a.(type) {
	case *Term:
		if y, ok := b.(*Term); ok {
			return tt.Eq(x, y)
		}
	case Ptr:
		if y, ok := b.(Ptr); ok {
			return tt.Bool(x.c == y.c && x.hb == y.hb)
		}
	case Slice:
		// only comparison with nil is legal
		if y, ok := b.(Slice); ok {
			if y.arr == nil && y.len == 0 {
				return tt.Bool(x.arr == nil)
			}
			return tt.Bool(y.arr == nil && x.arr == nil)
		}
	case *MapObj:
		if y, ok := b.(*MapObj); ok {
			return tt.Bool(x == y)
		}
	case *Closure:
		if y, ok := b.(*Closure); ok {
			return tt.Bool(x == nil && y == nil)
		}
	case Err:
		switch y := b.(type) {
		case Err:
			bothNil := tt.And(tt.Not(x.nonNil), tt.Not(y.nonNil))
			if x.tag == y.tag && x.tag != "" {
				return tt.Or(bothNil, tt.And(x.nonNil, y.nonNil))
			}
			return bothNil
		case Iface:
			if y.t == nil {
				return tt.Not(x.nonNil)
			}
			return tt.False
		}
	case Iface:
		switch y := b.(type) {
		case Iface:
			if x.t == nil || y.t == nil {
				return tt.Bool(x.t == nil && y.t == nil)
			}
			if !types.Identical(x.t, y.t) {
				return tt.False
			}
			return in.equal(x.v, y.v)
		case Err:
			if x.t == nil {
				return tt.Not(y.nonNil)
			}
			return tt.False
		}
	case *Struct:
		if y, ok := b.(*Struct); ok {
			r := tt.True
			for i := range x.f {
				r = tt.And(r, in.equal(x.f[i], y.f[i]))
			}
			return r
		}
	case *Array:
		if y, ok := b.(*Array); ok {
			r := tt.True
			for i := range x.e {
				r = tt.And(r, in.equal(x.e[i], y.e[i]))
			}
			return r
		}
	case Str:
		if y, ok := b.(Str); ok {
			if x.known && y.known {
				return tt.Bool(x.s == y.s)
			}
			// contents of formatted strings are not modelled: either outcome is possible
			return in.fresh("strcmp", SBool)
		}
	}
	in.end("error", "equal on %T,%T at %s", a, b, in.where())
	return nil
}
