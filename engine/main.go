package main

import (
	"encoding/json"
	"flag"
	"fmt"
	"os"
	"path/filepath"
	"runtime"
	"strconv"
	"strings"
	"time"

	"golang.org/x/tools/go/packages"
	"golang.org/x/tools/go/ssa"
	"golang.org/x/tools/go/ssa/ssautil"
)

var (
	verifRoot = "/verif"
	repoDir   = "/repo"
)

// loadProgram loads /repo's current working tree with the harness overlay.
func loadProgram(harnessFiles []string) (*ssa.Program, *ssa.Package, []string, error) {
	overlay := map[string][]byte{}
	var skipped []string
	for _, f := range harnessFiles {
		b, err := os.ReadFile(f)
		if err != nil {
			return nil, nil, nil, err
		}
		overlay[filepath.Join(repoDir, "zz_verif_"+filepath.Base(f))] = b
	}
	load := func() ([]*packages.Package, error) {
		cfg := &packages.Config{
			Mode:       packages.LoadAllSyntax,
			Dir:        repoDir,
			Overlay:    overlay,
			BuildFlags: []string{"-tags=verif", "-mod=mod"},
			Env:        append(os.Environ(), "GOFLAGS=", "GOPROXY=off", "GOSUMDB=off", "GOTOOLCHAIN=local"),
		}
		return packages.Load(cfg, ".")
	}
	pkgs, err := load()
	if err != nil {
		return nil, nil, nil, err
	}
	// Drop optional lemma files that no longer type-check (renamed helpers), keep the rest.
	for tries := 0; tries < 8; tries++ {
		bad := map[string]bool{}
		for _, p := range pkgs {
			for _, e := range p.Errors {
				pos := e.Pos
				if i := strings.Index(pos, ":"); i > 0 {
					pos = pos[:i]
				}
				if strings.Contains(filepath.Base(pos), "zz_verif_opt_") {
					bad[pos] = true
				}
			}
		}
		if len(bad) == 0 {
			break
		}
		for f := range bad {
			delete(overlay, f)
			skipped = append(skipped, filepath.Base(f))
		}
		pkgs, err = load()
		if err != nil {
			return nil, nil, nil, err
		}
	}
	nerr := 0
	var sb strings.Builder
	for _, p := range pkgs {
		for _, e := range p.Errors {
			nerr++
			if nerr < 20 {
				fmt.Fprintln(&sb, e)
			}
		}
	}
	if nerr > 0 {
		return nil, nil, skipped, fmt.Errorf("package load errors:\n%s", sb.String())
	}
	prog, spkgs := ssautil.AllPackages(pkgs, ssa.InstantiateGenerics)
	prog.Build()
	return prog, spkgs[0], skipped, nil
}

func harnessFiles() []string {
	fs, _ := filepath.Glob(filepath.Join(verifRoot, "harness", "*.go"))
	var out []string
	for _, f := range fs {
		b := filepath.Base(f)
		if strings.HasSuffix(b, "_native.go") || strings.HasSuffix(b, "_test.go") {
			continue
		}
		out = append(out, f)
	}
	return out
}

type paramFlag map[string]int

func (p paramFlag) String() string { return fmt.Sprint(map[string]int(p)) }
func (p paramFlag) Set(s string) error {
	kv := strings.SplitN(s, "=", 2)
	if len(kv) != 2 {
		return fmt.Errorf("want name=value")
	}
	v, err := strconv.Atoi(kv[1])
	if err != nil {
		return err
	}
	p[kv[0]] = v
	return nil
}

func main() {
	if exe, err := os.Executable(); err == nil {
		if d := filepath.Dir(filepath.Dir(exe)); fileExists(filepath.Join(d, "harness")) {
			verifRoot = d
		}
	}
	if v := os.Getenv("VERIF_ROOT"); v != "" {
		verifRoot = v
	}
	if v := os.Getenv("VERIF_REPO"); v != "" {
		repoDir = v
	}
	if len(os.Args) < 2 {
		fmt.Fprintln(os.Stderr, "usage: ssa2smt run|check|replay|selftest ...")
		os.Exit(2)
	}
	switch os.Args[1] {
	case "run":
		cmdRun(os.Args[2:])
	case "check":
		cmdCheck(os.Args[2:])
	case "replay":
		cmdReplay(os.Args[2:])
	default:
		fmt.Fprintln(os.Stderr, "unknown command", os.Args[1])
		os.Exit(2)
	}
}

func fileExists(p string) bool { _, err := os.Stat(p); return err == nil }

func cmdRun(args []string) {
	fs := flag.NewFlagSet("run", flag.ExitOnError)
	harness := fs.String("harness", "", "harness function name")
	params := paramFlag{}
	fs.Var(params, "p", "parameter name=value (repeatable)")
	workers := fs.Int("workers", runtime.NumCPU(), "parallel workers")
	solver := fs.String("solver", "z3", "z3 | z3-new | cvc5")
	timeout := fs.Int("timeout", 60000, "per-query timeout ms")
	maxPaths := fs.Int("max-paths", 0, "stop after this many paths (0 = no limit)")
	unwind := fs.Int("unwind", 70, "bound on symbolic iterations per loop")
	witness := fs.Int("witness", 0, "collect this many witnesses")
	slog := fs.String("solver-log", "", "write worker 0's solver input here")
	jsonOut := fs.String("json", "", "write stats JSON here")
	fs.Parse(args)
	t0 := time.Now()
	prog, pkg, skipped, err := loadProgram(harnessFiles())
	if err != nil {
		fmt.Fprintln(os.Stderr, err)
		os.Exit(2)
	}
	fmt.Printf("loaded in %v (skipped %v)\n", time.Since(t0), skipped)
	ex := &Explorer{prog: prog, pkg: pkg, harness: *harness, params: params, workers: *workers,
		solver: *solver, timeoutMs: *timeout, maxPaths: *maxPaths, unwind: *unwind, maxSteps: 200_000_000,
		witnessN: *witness, solverLog: *slog, openKF: map[string]KnownFinding{}}
	for _, kf := range loadKnownFindings() {
		if kf.State == "open" {
			ex.openKF[kf.Tag] = kf
		}
	}
	st := ex.Run()
	printStats(st)
	if *jsonOut != "" {
		b, _ := json.MarshalIndent(st, "", " ")
		os.WriteFile(*jsonOut, b, 0o644)
	}
	if len(st.Violations) > 0 {
		os.Exit(1)
	}
	if st.ErrorPaths > 0 || st.Incomplete || st.AssertUnknown > 0 {
		os.Exit(2)
	}
}

func printStats(st *RunStats) {
	fmt.Printf("paths=%d done=%d infeasible=%d viol=%d panic=%d unwind=%d error=%d forks=%d pruned=%d unknownFeas=%d\n",
		st.Paths, st.Done, st.Infeasible, st.ViolPaths, st.PanicPaths, st.UnwindPaths, st.ErrorPaths, st.Forks, st.Pruned, st.UnknownFeas)
	fmt.Printf("asserts=%d folded=%d assertQueries=%d assertUnknown=%d steps=%d wall=%v\n",
		st.Asserts, st.Folded, st.AssertQueries, st.AssertUnknown, st.Steps, st.Wall)
	fmt.Printf("solver: sat=%d unsat=%d unknown=%d errors=%d time=%v kinds=%v\n",
		st.Solver.Sat, st.Solver.Unsat, st.Solver.Unknown, st.Solver.Errors, st.Solver.Time, st.Solver.ByKind)
	fmt.Printf("reached=%v incomplete=%v\n", st.Reached, st.Incomplete)
	for _, e := range st.Errors {
		fmt.Println("ERROR:", e)
	}
	for _, m := range st.InfeasibleMsgs {
		fmt.Println("INFEASIBLE:", m)
	}
	for _, k := range sortedKeys(st.VioCounts) {
		fmt.Printf("VIOCOUNT %s = %d\n", k, st.VioCounts[k])
	}
	for _, v := range st.Violations {
		b, _ := json.Marshal(v.Vector)
		fmt.Printf("VIOLATION-CANDIDATE kind=%s tag=%s id=%s vector=%s\n", v.Kind, v.Tag, v.ID, b)
	}
}
