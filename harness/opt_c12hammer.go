//go:build verif

package utreexo

// Native replay partner for lock-discipline findings of C12: a writer that keeps asking for the lock.
// Optional overlay file (names the unexported mutex field); without it such findings cannot be replayed
// and are reported as inconclusive.
func init() {
	c12Hammer = func(m *MapPollard) {
		for i := 0; i < 2000; i++ {
			m.rwLock.Lock()
			m.rwLock.Unlock()
		}
	}
}
