//go:build verif

package utreexo

// Native replay partner for lock-discipline findings of C12: a writer that keeps asking for the lock.
// Optional overlay file (names the unexported mutex field); without it such findings cannot be replayed
// and are reported as inconclusive.
func init() {
	// c12LockLoop: takes and releases the write lock until told to stop, counting acquisitions
	c12LockLoop = func(m *MapPollard, stop func() bool, acquired func()) {
		for !stop() {
			m.rwLock.Lock()
			acquired()
			m.rwLock.Unlock()
		}
	}
	c12Hammer = func(m *MapPollard) {
		for i := 0; i < 2000; i++ {
			m.rwLock.Lock()
			m.rwLock.Unlock()
		}
	}
}
