//go:build verif && verifreplay

package utreexo

// Native bodies of the harness intrinsics, used only to replay solver models
// and reachability witnesses against the real build.  Values are popped from
// a replay vector produced by /verif/engine.

import (
	"crypto/sha256"
	"crypto/sha512"
	"encoding/binary"
	"fmt"
	"reflect"
)

type verifHashJS struct {
	Z bool         `json:"z,omitempty"`
	A *uint64      `json:"a,omitempty"`
	L *verifHashJS `json:"l,omitempty"`
	R *verifHashJS `json:"r,omitempty"`
}

type verifReplayVal struct {
	K string       `json:"k"`
	N string       `json:"n,omitempty"`
	V uint64       `json:"v,omitempty"`
	H *verifHashJS `json:"h,omitempty"`
}

type verifReplayFile struct {
	Harness string           `json:"harness"`
	Kind    string           `json:"kind"`
	ID      string           `json:"id"`
	Vector  []verifReplayVal `json:"vector"`
	Params  map[string]int   `json:"params"`
}

type verifObs struct {
	Tag string
	U   uint64
	H   Hash
	IsH bool
}

type verifStop struct {
	status string
	msg    string
}

var verifState struct {
	vec     []verifReplayVal
	pos     int
	params  map[string]int
	reached []string
	obs     []verifObs
	owned   []verifOwnRec
}

type verifOwnRec struct {
	tag  string
	live reflect.Value
	snap reflect.Value
}

func verifAtomBytes(id uint64) Hash {
	var b [12]byte
	copy(b[:], "atom")
	binary.LittleEndian.PutUint64(b[4:], id)
	return Hash(sha256.Sum256(b[:]))
}

func (h *verifHashJS) concrete() Hash {
	if h == nil || h.Z {
		return Hash{}
	}
	if h.A != nil {
		return verifAtomBytes(*h.A)
	}
	return refParent(h.L.concrete(), h.R.concrete())
}

func refParent(l, r Hash) Hash {
	var buf [64]byte
	copy(buf[:32], l[:])
	copy(buf[32:], r[:])
	return Hash(sha512.Sum512_256(buf[:]))
}

func verifPop(kind, name string) verifReplayVal {
	if verifState.pos >= len(verifState.vec) {
		panic(verifStop{"vector-exhausted", fmt.Sprintf("want %s %s", kind, name)})
	}
	v := verifState.vec[verifState.pos]
	verifState.pos++
	if v.K != kind {
		panic(verifStop{"vector-mismatch", fmt.Sprintf("want %s %s, have %s %s", kind, name, v.K, v.N)})
	}
	return v
}

func verifNondetU64(name string) uint64 { return verifPop("u64", name).V }
func verifNondetU32(name string) uint32 { return uint32(verifPop("u32", name).V) }
func verifNondetU8(name string) uint8   { return uint8(verifPop("u8", name).V) }
func verifNondetInt(name string) int    { return int(int64(verifPop("int", name).V)) }
func verifNondetBool(name string) bool  { return verifPop("bool", name).V != 0 }
func verifNondetHash(name string) Hash  { return verifPop("hash", name).H.concrete() }
func verifLeafHash(name string) Hash    { return verifAtomBytes(verifPop("leaf", name).V) }
func verifAtom(id uint64) Hash          { return verifAtomBytes(id) }
func verifChoose(name string, lo, hi int) int {
	v := int(verifPop("choose", name).V)
	if v < lo || v > hi {
		panic(verifStop{"vector-mismatch", fmt.Sprintf("choose %s=%d outside [%d,%d]", name, v, lo, hi)})
	}
	return v
}
func verifParam(name string, def int) int {
	if v, ok := verifState.params[name]; ok {
		return v
	}
	return def
}
func verifAssume(c bool) {
	if !c {
		panic(verifStop{"assume-failed", ""})
	}
}
func verifAssert(c bool, id string) {
	if !c {
		panic(verifStop{"assert", id})
	}
}
func verifAssertKF(c bool, id string, tag string, pred bool) {
	if !c {
		panic(verifStop{"assert", id})
	}
}
func verifReach(id string)                     { verifState.reached = append(verifState.reached, id) }
func verifObserveU64(tag string, v uint64)     { verifState.obs = append(verifState.obs, verifObs{Tag: tag, U: v}) }
func verifObserveHash(tag string, v Hash)      { verifState.obs = append(verifState.obs, verifObs{Tag: tag, H: v, IsH: true}) }
func verifObserveBool(tag string, v bool) {
	u := uint64(0)
	if v {
		u = 1
	}
	verifState.obs = append(verifState.obs, verifObs{Tag: tag, U: u})
}
func verifIteU64(c bool, a, b uint64) uint64 {
	if c {
		return a
	}
	return b
}
func verifIteHash(c bool, a, b Hash) Hash {
	if c {
		return a
	}
	return b
}
func verifIteBool(c bool, a, b bool) bool {
	if c {
		return a
	}
	return b
}
func verifUnwind(n int)                  {}
func verifConcretize(x uint64) uint64    { return x }
func verifTrackStart(name string)        {}
func verifTrackStartObj(name string, recv interface{}) {}
func verifTrackStop()                    {}
func verifMapReverse(on bool)            {}
func verifOwn(s interface{}, tag string) {
	v := reflect.ValueOf(s)
	if v.Kind() != reflect.Slice || v.IsNil() {
		return
	}
	snap := reflect.MakeSlice(v.Type(), v.Len(), v.Len())
	reflect.Copy(snap, v)
	verifState.owned = append(verifState.owned, verifOwnRec{tag, v, snap})
}
func verifCheckOwned(id string) {
	for _, r := range verifState.owned {
		for i := 0; i < r.live.Len(); i++ {
			if !reflect.DeepEqual(r.live.Index(i).Interface(), r.snap.Index(i).Interface()) {
				panic(verifStop{"assert", fmt.Sprintf("%s:%s[%d]", id, r.tag, i)})
			}
		}
	}
}
