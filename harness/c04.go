//go:build verif

package utreexo

// C04 — verifiers are total on untrusted input and reject atomically.
// Arbitrary well-formed stump: NumLeaves in [0, 2^R) (case split), len(Roots) = popcount(NumLeaves),
// roots arbitrary hash terms (zero allowed).  delHashes, targets and proof hashes have independently
// chosen lengths and arbitrary contents (targets are arbitrary 64-bit values).
// Obligations: no panic (engine: every index/slice/nil/divide obligation), every loop inside its
// declared bound (engine: unwinding assertions, bound = harness unwind parameter), and the frame
// condition of a rejected Stump.Update.

func c04Stump() Stump {
	r := verifParam("R", 3)
	n := uint64(verifChoose("numLeaves", 0, (1<<uint(r))-1))
	var roots []Hash
	for b := 0; b < 64; b++ {
		if (n>>uint(b))&1 == 1 {
			roots = append(roots, verifNondetHash("root"))
		}
	}
	return Stump{Roots: roots, NumLeaves: n}
}

func c04Garbage() (hs []Hash, tg []uint64, pf []Hash) {
	kd := verifChoose("lenDelHashes", 0, verifParam("K", 2))
	kt := verifChoose("lenTargets", 0, verifParam("K", 2))
	m := verifChoose("lenProof", 0, verifParam("M", 2))
	hs = make([]Hash, kd)
	tg = make([]uint64, kt)
	pf = make([]Hash, m)
	for i := range hs {
		hs[i] = verifNondetHash("delHash")
	}
	for i := range tg {
		tg[i] = verifNondetU64("target")
	}
	for i := range pf {
		pf[i] = verifNondetHash("proof")
	}
	return
}

func HarnessC04Verify() {
	st := c04Stump()
	hs, tg, pf := c04Garbage()
	Verify(st, hs, Proof{Targets: tg, Proof: pf})
	verifReach("C04.Verify")
}

func HarnessC04StumpUpdate() {
	st := c04Stump()
	hs, tg, pf := c04Garbage()
	na := verifChoose("adds", 0, verifParam("A", 1))
	adds := make([]Hash, na)
	for i := range adds {
		adds[i] = verifNondetHash("add")
	}
	before := refCopyHashes(st.Roots)
	nBefore := st.NumLeaves
	_, err := st.Update(hs, adds, Proof{Targets: tg, Proof: pf})
	if err != nil {
		verifAssert(st.NumLeaves == nBefore, "C04.Update.frame.numLeaves")
		verifAssert(len(st.Roots) == len(before), "C04.Update.frame.lenRoots")
		if len(st.Roots) == len(before) {
			for i := range before {
				verifAssert(st.Roots[i] == before[i], "C04.Update.frame.root")
			}
		}
	}
	verifReach("C04.Update")
}

// HarnessC04Forest: garbage input to the forests' verify entry points on a reachable state:
// no panic, every loop inside the unwinding bound.  which: 1 Pollard.Verify, 2 MapPollard.Verify,
// 3 MapPollard.VerifyPartialProof (partial forest).
func HarnessC04Forest() {
	w := newWorld()
	w.history("C04.history", false)
	hs, tg, pf := c04Garbage()
	rem := verifChoose("remember", 0, 1) == 1
	switch verifParam("which", 1) {
	case 1:
		w.p.Verify(hs, Proof{Targets: tg, Proof: pf}, rem)
	case 2:
		w.full.Verify(hs, Proof{Targets: tg, Proof: pf}, rem)
	case 3:
		w.part.VerifyPartialProof(tg, hs, pf, rem)
	}
	verifReach("C04.forest")
}
