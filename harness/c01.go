//go:build verif

package utreexo

// C01 — all implementations agree on the roots, for every history.
// B blocks from the empty accumulator; each block deletes an ordered selection of RM's live leaves
// (RM's canonical proof, targets in the selected order) and appends 0..A fresh leaves.  The same block
// goes to a Stump, a Pollard and MapPollards (full / partial, initial TotalRows T0).

func c01Leaves(adds []Hash, remember bool) []Leaf {
	out := make([]Leaf, len(adds))
	for i := range adds {
		out[i] = Leaf{Hash: adds[i], Remember: remember}
	}
	return out
}

func c01CheckRoots(roots []Hash, n uint64, v *refView, id string) {
	verifAssert(n == v.n, id+".numLeaves")
	verifAssert(len(roots) == len(v.roots), id+".root-count")
	if len(roots) == len(v.roots) {
		for i := range v.roots {
			verifAssert(roots[i] == v.roots[i], id+".root")
		}
	}
}

func HarnessC01Pollard() {
	rm := &refForest{}
	p := NewAccumulator()
	st := Stump{}
	blocks := verifParam("B", 2)
	maxN := verifParam("N", 4)
	for k := 0; k < blocks; k++ {
		v := rm.view()
		b := rm.refBlock(v, verifParam("D", 2), refMin(verifParam("A", 2), maxN-len(rm.leaves)))
		_, err := st.Update(b.hashes, b.adds, b.proof)
		verifAssert(err == nil, "C01.stump.accepts")
		err = p.Modify(c01Leaves(b.adds, true), b.hashes, b.proof)
		verifAssert(err == nil, "C01.pollard.accepts")
		rm = rm.apply(b)
		nv := rm.view()
		c01CheckRoots(st.Roots, st.NumLeaves, nv, "C01.stump")
		c01CheckRoots(p.GetRoots(), p.GetNumLeaves(), nv, "C01.pollard")
	}
	verifReach("C01.pollard")
}

// c01RememberFlags: partial forests get case-split Remember flags on the additions.
func c01RememberLeaves(adds []Hash) []Leaf {
	out := make([]Leaf, len(adds))
	if verifParam("remMode", 0) == 1 && len(adds) > 0 {
		// cheaper: one flag for all additions of the block
		r := verifChoose("rememberAll", 0, 1) == 1
		for i := range adds {
			out[i] = Leaf{Hash: adds[i], Remember: r}
		}
		return out
	}
	if verifParam("remMode", 0) == 2 && len(adds) > 0 {
		// at most one remembered addition per block
		r := verifChoose("rememberOne", -1, len(adds)-1)
		for i := range adds {
			out[i] = Leaf{Hash: adds[i], Remember: i == r}
		}
		return out
	}
	for i := range adds {
		out[i] = Leaf{Hash: adds[i], Remember: verifChoose("remember", 0, 1) == 1}
	}
	return out
}

func newMapPollardRows(full bool, t0 int) *MapPollard {
	m := NewMapPollard(full)
	m.TotalRows = uint8(t0)
	return &m
}

// HarnessC01Map: Stump + full MapPollard + partial MapPollard (deletions first verified with
// remember, additions with case-split Remember flags), initial TotalRows = T0.
func HarnessC01Map() {
	rm := &refForest{}
	st := Stump{}
	t0 := verifParam("T0", 63)
	full := newMapPollardRows(true, t0)
	part := newMapPollardRows(false, t0)
	blocks := verifParam("B", 2)
	maxN := verifParam("N", 4)
	for k := 0; k < blocks; k++ {
		v := rm.view()
		b := rm.refBlock(v, verifParam("D", 2), refMin(verifParam("A", 2), maxN-len(rm.leaves)))
		_, err := st.Update(b.hashes, b.adds, b.proof)
		verifAssert(err == nil, "C01.stump.accepts")
		err = full.Modify(c01Leaves(b.adds, false), b.hashes, b.proof)
		verifAssert(err == nil, "C01.mapfull.accepts")
		if len(b.hashes) > 0 {
			err = part.Verify(b.hashes, b.proof, true)
			verifAssert(err == nil, "C01.mappartial.verify-remember")
		}
		err = part.Modify(c01RememberLeaves(b.adds), b.hashes, b.proof)
		verifAssert(err == nil, "C01.mappartial.accepts")
		rm = rm.apply(b)
		nv := rm.view()
		c01CheckRoots(st.Roots, st.NumLeaves, nv, "C01.stump")
		c01CheckRoots(full.GetRoots(), full.GetNumLeaves(), nv, "C01.mapfull")
		c01CheckRoots(part.GetRoots(), part.GetNumLeaves(), nv, "C01.mappartial")
	}
	verifReach("C01.map")
}
