//go:build verif

package utreexo

// C14 — proof combination, restriction and completion are exact (stand-alone functions).

// c14Proof builds RM's proof for the given live slots, targets/hashes in the given (parallel) order.
func c14Proof(rm *refForest, v *refView, slots []int) (Proof, []Hash, []int) {
	var p Proof
	var hs []Hash
	var idx []int
	for _, s := range slots {
		x := v.leafIdx[s]
		idx = append(idx, x)
		p.Targets = append(p.Targets, v.nodes[x].pos)
		hs = append(hs, rm.leaves[s].hash)
	}
	p.Proof = v.proofHashes(idx)
	return p, hs, idx
}

func c14Union(a, b []int) []int {
	out := append([]int{}, a...)
	for _, x := range b {
		dup := false
		for _, y := range out {
			if x == y {
				dup = true
			}
		}
		if !dup {
			out = append(out, x)
		}
	}
	return out
}

func HarnessC14AddProof() {
	rm := refShape(verifParam("N", 5))
	v := rm.view()
	live := rm.liveSlots()
	var sa []int
	if verifParam("allA", 0) == 1 {
		sa = live // proof A covers every live leaf (no proof hashes)
	} else {
		sa = refPickSubset("A", live, verifParam("K", 2))
	}
	sb := refPickSubset("B", live, verifParam("K", 2))
	pa, ha, _ := c14Proof(rm, v, sa)
	pb, hb, _ := c14Proof(rm, v, sb)
	verifOwn(pa.Targets, "A.targets")
	verifOwn(pa.Proof, "A.proof")
	verifOwn(pb.Targets, "B.targets")
	verifOwn(pb.Proof, "B.proof")
	verifOwn(ha, "A.hashes")
	verifOwn(hb, "B.hashes")
	hc, pc := AddProof(pa, pb, ha, hb, v.n)
	verifCheckOwned("C17.AddProof")
	su := c14Union(sa, sb)
	var uidx []int
	for _, s := range su {
		uidx = append(uidx, v.leafIdx[s])
	}
	verifAssert(len(pc.Targets) == len(su) && len(hc) == len(su), "C14.AddProof.count")
	if len(pc.Targets) != len(su) || len(hc) != len(su) {
		return
	}
	for _, s := range su {
		found := false
		for i := range pc.Targets {
			if pc.Targets[i] == v.nodes[v.leafIdx[s]].pos {
				found = true
				verifAssert(hc[i] == rm.leaves[s].hash, "C14.AddProof.hash-paired")
			}
		}
		verifAssert(found, "C14.AddProof.target-present")
	}
	want := v.proofHashes(uidx)
	verifAssert(len(pc.Proof) == len(want), "C14.AddProof.proof-len")
	if len(pc.Proof) == len(want) {
		for i := range want {
			verifAssert(pc.Proof[i] == want[i], "C14.AddProof.proof-hash")
		}
	}
	if len(su) > 0 {
		_, err := Verify(rm.stump(), hc, pc)
		verifAssert(err == nil, "C14.AddProof.verifies")
	}
	verifReach("C14.AddProof")
}

// GetProofSubset with arbitrary 64-bit wants (distinct): error exactly when a want is not covered;
// otherwise hashes/targets in the order of wants and RM's canonical proof of the wants.
func HarnessC14Subset() {
	rm := refShape(verifParam("N", 5))
	v := rm.view()
	sa := refPickSubset("A", rm.liveSlots(), verifParam("K", 3))
	verifAssume(len(sa) > 0)
	pa, ha, _ := c14Proof(rm, v, sa)
	nw := verifChoose("wants", 1, verifParam("W", 2))
	wants := make([]uint64, nw)
	for i := range wants {
		wants[i] = verifNondetU64("want")
		for j := 0; j < i; j++ {
			verifAssume(wants[i] != wants[j])
		}
	}
	verifOwn(pa.Targets, "proof.targets")
	verifOwn(pa.Proof, "proof.proof")
	verifOwn(ha, "hashes")
	verifOwn(wants, "wants")
	rh, rp, err := GetProofSubset(pa, ha, wants, v.n)
	verifCheckOwned("C17.GetProofSubset")
	covered := true
	for i := range wants {
		in := false
		for _, t := range pa.Targets {
			in = verifIteBool(wants[i] == t, true, in)
		}
		covered = verifIteBool(in, covered, false)
	}
	verifAssert((err == nil) == covered, "C14.Subset.error-iff-not-covered")
	if err != nil || !covered {
		return
	}
	verifAssert(len(rh) == nw && len(rp.Targets) == nw, "C14.Subset.count")
	if len(rh) != nw || len(rp.Targets) != nw {
		return
	}
	// wants are now known to be covered: concretize them to compare with RM
	var widx []int
	for i := range wants {
		w := verifConcretize(wants[i])
		verifAssert(rp.Targets[i] == w, "C14.Subset.targets-in-want-order")
		x := v.nodeAt(w)
		verifAssert(x >= 0, "C14.Subset.want-exists")
		if x < 0 {
			return
		}
		verifAssert(rh[i] == v.nodes[x].hash, "C14.Subset.hash-in-want-order")
		widx = append(widx, x)
	}
	want := v.proofHashes(widx)
	verifAssert(len(rp.Proof) == len(want), "C14.Subset.proof-len")
	if len(rp.Proof) == len(want) {
		for i := range want {
			verifAssert(rp.Proof[i] == want[i], "C14.Subset.proof-hash")
		}
	}
	verifReach("C14.Subset")
}

// GetMissingPositions (function): held proof for A, desired targets D (live leaves, any order).
func HarnessC14Missing() {
	rm := refShape(verifParam("N", 5))
	v := rm.view()
	live := rm.liveSlots()
	sa := refPickSubset("A", live, verifParam("K", 2))
	sd := refPickSubset("D", live, verifParam("K", 2))
	pa, _, aidx := c14Proof(rm, v, sa)
	pd, _, _ := c14Proof(rm, v, sd)
	got := GetMissingPositions(v.n, pa.Targets, pd.Targets)
	// have: A, A's proof positions, everything on A's paths
	needA, onA := v.proofIdx(aidx)
	have := make([]bool, len(v.nodes))
	for x := range v.nodes {
		if onA[x] {
			have[x] = true
		}
	}
	for _, x := range needA {
		have[x] = true
	}
	// extra targets
	var eidx []int
	for _, s := range sd {
		inA := false
		for _, a := range sa {
			if a == s {
				inA = true
			}
		}
		if !inA {
			eidx = append(eidx, v.leafIdx[s])
		}
	}
	needE, _ := v.proofIdx(eidx)
	var want []uint64
	for _, x := range needE {
		if !have[x] {
			want = append(want, v.nodes[x].pos)
		}
	}
	verifAssert(len(got) == len(want), "C14.Missing.count")
	if len(got) == len(want) {
		for i := range want {
			verifAssert(got[i] == want[i], "C14.Missing.position")
		}
	}
	verifReach("C14.Missing")
}

// HarnessC14MapMissing: MapPollard.GetMissingPositions + VerifyPartialProof on a partial forest after
// an honest history.  For any ordered selection D of live leaves the reported positions must be exactly
// RM's canonical proof positions of D that the forest neither stores nor can compute from what it stores
// (in RM's own numbering), ascending; supplying RM's hashes at exactly those positions makes
// VerifyPartialProof accept.
func HarnessC14MapMissing() {
	w := newWorld()
	w.history("C14.history", false)
	m := w.part
	v := w.rm.view()
	tv := w.rm.viewRows(m.TotalRows)
	sd := refPickSubset("D", w.rm.liveSlots(), verifParam("K", 2))
	if len(sd) == 0 {
		return
	}
	pd, hd, didx := c14Proof(w.rm, v, sd)
	tg := make([]uint64, len(pd.Targets), len(pd.Targets)+2)
	copy(tg, pd.Targets)
	verifOwn(tg, "targets")
	got := m.GetMissingPositions(tg)
	verifCheckOwned("C17.MapPollard.GetMissingPositions")
	need, _ := v.proofIdx(didx)
	// what the forest holds: the nodes it stores (read from its node map, in its own row numbering) and
	// everything computable from them (both children held)
	held := make([]bool, len(v.nodes))
	for x := range v.nodes {
		y := tv.nodeAt(refStart(v.nodes[x].row, tv.rows) + (v.nodes[x].pos - refStart(v.nodes[x].row, v.rows)))
		if y >= 0 {
			_, held[x] = m.Nodes.Get(tv.nodes[y].pos)
		}
	}
	stored := make([]bool, len(held))
	copy(stored, held)
	for round := 0; round <= int(v.rows); round++ {
		for x := range v.nodes {
			if sb := v.nodes[x].sib; sb >= 0 && held[x] && held[sb] {
				held[v.nodes[x].parent] = true
			}
		}
	}
	var want, wantStored []uint64
	var wantHashes, wantStoredHashes []Hash
	for _, x := range need {
		if !held[x] {
			want = append(want, v.nodes[x].pos)
			wantHashes = append(wantHashes, v.nodes[x].hash)
		}
		if !stored[x] {
			wantStored = append(wantStored, v.nodes[x].pos)
			wantStoredHashes = append(wantStoredHashes, v.nodes[x].hash)
		}
	}
	// Open finding F-C14-1: the map forest reports (and VerifyPartialProof asks for) needed positions that
	// it does not store even when they are computable from nodes it holds.  Carve-out: the answer is exactly
	// the not-stored needed positions and differs from the strict answer only by such computable ones.
	gotIsStoredOnly := len(got) == len(wantStored)
	if gotIsStoredOnly {
		for i := range wantStored {
			if got[i] != wantStored[i] {
				gotIsStoredOnly = false
			}
		}
	}
	kf := gotIsStoredOnly && len(wantStored) != len(want)
	verifAssertKF(len(got) == len(want), "C14.MapMissing.count", "F-C14-1", kf)
	if len(got) == len(want) {
		for i := range want {
			verifAssert(got[i] == want[i], "C14.MapMissing.position")
		}
	}
	err := m.VerifyPartialProof(tg, hd, wantHashes, false)
	verifAssertKF(err == nil, "C14.MapMissing.completed-proof-verifies", "F-C14-1", kf)
	if kf {
		// inside the carve-out the forest must at least be consistent with its own answer
		err = m.VerifyPartialProof(tg, hd, wantStoredHashes, false)
		verifAssert(err == nil, "C14.MapMissing.reported-positions-suffice")
	}
	verifReach("C14.MapMissing")
}
