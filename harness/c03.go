//go:build verif

package utreexo

// C03 — verification is sound: an accepted (hashes, proof) only states true facts.
// State: every RM shape with <= N leaves (any alive subset).  Claim: K targets
// (arbitrary 64-bit values), K non-zero claimed hashes and M proof hashes, all
// arbitrary terms of the hash algebra (root hashes, internal hashes, zero proof
// hashes included).

func c03Claim(rm *refForest) (tg []uint64, hs, pf []Hash) {
	k := verifChoose("k", 1, verifParam("K", 2))
	m := verifChoose("m", 0, verifParam("M", 3))
	tg = make([]uint64, k)
	hs = make([]Hash, k)
	pf = make([]Hash, m)
	for i := range tg {
		tg[i] = verifNondetU64("target")
		hs[i] = verifNondetHash("claim")
		verifAssume(hs[i] != Hash{})
	}
	for i := range pf {
		pf[i] = verifNondetHash("proof")
	}
	return
}

// inSpanSym: does pos lie in the position range that tree ti occupies (existing or vacated nodes)?
func (v *refView) inSpanSym(ti int, pos uint64) bool {
	t := v.rootRow[ti]
	off := v.rootPos[ti] - refStart(t, v.rows)
	in := false
	for r := uint8(0); r <= t; r++ {
		first := refStart(r, v.rows) + (off << (t - r))
		cnt := uint64(1) << (t - r)
		in = verifIteBool(pos >= first && pos-first < cnt, true, in)
	}
	return in
}

// kfWrongTree: open finding F-C03-2 — the root matching loop compares a computed root candidate with
// every root, not with the root of the tree the targets lie in.  Carve-out: every target lies in
// the span of some tree and the set of root indexes Verify reports differs from the set of trees
// whose span contains a target.
func kfWrongTree(v *refView, tg []uint64, idxs []int) bool {
	all := true
	mismatch := false
	for ti := range v.roots {
		hit := false
		for i := range tg {
			hit = verifIteBool(v.inSpanSym(ti, tg[i]), true, hit)
		}
		reported := false
		for _, x := range idxs {
			if x == ti {
				reported = true
			}
		}
		mismatch = verifIteBool(hit != reported, true, mismatch)
	}
	for i := range tg {
		some := false
		for ti := range v.roots {
			some = verifIteBool(v.inSpanSym(ti, tg[i]), true, some)
		}
		all = verifIteBool(some, all, false)
	}
	return all && mismatch
}

func c03CheckClaim(v *refView, tg []uint64, hs []Hash, idxs []int, id string) {
	wrongTree := kfWrongTree(v, tg, idxs)
	for i := range tg {
		ex, h := v.hashAtSym(tg[i])
		verifAssertKF(ex && h == hs[i], id, "F-C03-2", wrongTree)
	}
}

func HarnessC03Verify() {
	rm := refShape(verifParam("N", 4))
	v := rm.view()
	st := rm.stump()
	tg, hs, pf := c03Claim(rm)
	idxs, err := Verify(st, hs, Proof{Targets: tg, Proof: pf})
	if err == nil {
		c03CheckClaim(v, tg, hs, idxs, "C03.Verify.claim-true")
	}
	verifReach("C03.Verify")
}

// HarnessC03Forest: the same adversarial claim against the forests' own verify methods, on states
// reached by an honest history: Pollard.Verify, MapPollard.Verify (full), and
// MapPollard.VerifyPartialProof on the partial forest (which completes the proof from its own
// nodes).  which: 1 Pollard, 2 full map, 3 partial map (VerifyPartialProof), 4 partial map (Verify).
func HarnessC03Forest() {
	w := newWorld()
	w.history("C03.history", false)
	v := w.rm.view()
	tg, hs, pf := c03Claim(w.rm)
	proof := Proof{Targets: tg, Proof: pf}
	// the stand-alone verifier's root indexes identify the wrong-tree carve-out (F-C03-2)
	idxs, errS := Verify(w.st, hs, proof)
	which := verifParam("which", 1)
	// twice=1: the claim is first verified with remember=true (whatever the answer) and the verdict
	// that is judged is that of a second verification of the same claim on the same instance: a
	// rejected claim must leave nothing behind that makes it acceptable afterwards
	twice := verifParam("twice", 0) == 1
	var err error
	for round := 0; round < 2; round++ {
		if round == 0 && !twice {
			continue
		}
		remember := twice && round == 0
		switch which {
		case 1:
			err = w.p.Verify(hs, proof, remember)
		case 2:
			err = w.full.Verify(hs, proof, remember)
		case 3:
			err = w.part.VerifyPartialProof(tg, hs, pf, remember)
		case 4:
			err = w.part.Verify(hs, proof, remember)
		}
	}
	if err == nil {
		wide := (which == 2 && w.full.TotalRows > v.rows) || (which == 4 && w.part.TotalRows > v.rows)
		if which != 3 && !wide {
			// same algorithm: the stand-alone verifier must agree on acceptance
			verifAssert(errS == nil, "C03.forest.agrees-with-Verify")
			if errS == nil {
				c03CheckClaim(v, tg, hs, idxs, "C03.forest.claim-true")
			}
		} else {
			// the partial forest completes the proof itself; wrong-tree carve-out cannot be read off
			// Verify's indexes, so it is evaluated on the geometry alone: a claim is in the carve-out
			// when its hash is the true hash of a root of ANOTHER tree than the one its position lies in
			// a map forest allocated for more rows also answers to positions in the allocated numbering
			var alt *refView
			if which == 3 && w.part.TotalRows > v.rows {
				alt = w.rm.viewRows(w.part.TotalRows)
			}
			if wide && which == 2 {
				alt = w.rm.viewRows(w.full.TotalRows)
			}
			if wide && which == 4 {
				alt = w.rm.viewRows(w.part.TotalRows)
			}
			for i := range tg {
				ex, h := v.hashAtSym(tg[i])
				if alt != nil {
					ex2, h2 := alt.hashAtSym(tg[i])
					h = verifIteHash(ex, h, h2)
					ex = verifIteBool(ex, true, ex2)
				}
				otherRoot := false
				for ti := range v.roots {
					otherRoot = verifIteBool(verifIteBool(v.inSpanSym(ti, tg[i]), false, hs[i] == v.roots[ti]), true, otherRoot)
				}
				verifAssertKF(verifIteBool(ex, h == hs[i], false), "C03.partial.claim-true", "F-C03-2", otherRoot)
			}
		}
	}
	verifReach("C03.forest")
}
