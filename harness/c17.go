//go:build verif

package utreexo

// C17 — library calls never modify the caller's slices.
// After an honest history the harness builds one honest block whose slices are in caller order
// (unsorted) and have SPARE CAPACITY holding sentinels, marks them caller-owned, and pushes them
// through every API the property lists.  After every call the engine asserts element-wise equality of
// every owned backing array (including the spare capacity) with its snapshot; results returned
// earlier (Prove, Update's UpdateData, AddProof, GetProofSubset) are owned as soon as they are
// returned and re-compared after all later calls.

func c17SpareHashes(s []Hash) []Hash {
	out := make([]Hash, len(s), len(s)+2)
	copy(out, s)
	full := out[:cap(out)]
	for i := len(s); i < len(full); i++ {
		full[i] = verifAtom(uint64(0xFEED0000 + i))
	}
	return out
}

func c17SpareU64(s []uint64) []uint64 {
	out := make([]uint64, len(s), len(s)+2)
	copy(out, s)
	full := out[:cap(out)]
	for i := len(s); i < len(full); i++ {
		full[i] = 0xFEEDFACE00 + uint64(i)
	}
	return out
}

func HarnessC17Calls() {
	w := newWorld()
	w.history("C17.history", false)
	v := w.rm.view()
	// cached proof of the light client before the block (canonical for a held subset)
	c := &lightClient{stump: w.rm.stump()}
	c.held = refPickCombo("held", w.rm.liveSlots(), verifParam("H", 2))
	c.canonical(w.rm, v)
	cachedHashes := c17SpareHashes(c.hashes)
	cachedProof := Proof{Targets: c17SpareU64(c.proof.Targets), Proof: c17SpareHashes(c.proof.Proof)}

	b := w.rm.refBlock(v, verifParam("D", 2), verifParam("A2", 2))
	hashes := c17SpareHashes(b.hashes)
	targets := c17SpareU64(b.proof.Targets)
	proofHashes := c17SpareHashes(b.proof.Proof)
	adds := c17SpareHashes(b.adds)
	proof := Proof{Targets: targets, Proof: proofHashes}
	prevRoots := c17SpareHashes(v.roots)
	verifOwn(hashes, "block.hashes")
	verifOwn(targets, "block.targets")
	verifOwn(proofHashes, "block.proof")
	verifOwn(adds, "block.adds")
	verifOwn(prevRoots, "prevRoots")
	verifOwn(cachedHashes, "cached.hashes")
	verifOwn(cachedProof.Targets, "cached.targets")
	verifOwn(cachedProof.Proof, "cached.proof")

	// verification
	if len(hashes) > 0 {
		_, err := Verify(w.st, hashes, proof)
		verifAssume(err == nil)
		verifCheckOwned("C17.Verify")
		if w.p != nil {
			verifAssume(w.p.Verify(hashes, proof, false) == nil)
			verifCheckOwned("C17.Pollard.Verify")
			pr, err := w.p.Prove(hashes)
			verifAssume(err == nil)
			verifCheckOwned("C17.Pollard.Prove")
			verifOwn(pr.Targets, "result.Pollard.Prove.targets")
			verifOwn(pr.Proof, "result.Pollard.Prove.proof")
		}
		if w.full != nil {
			verifAssume(w.full.Verify(hashes, proof, true) == nil)
			verifCheckOwned("C17.MapPollard.Verify")
			pr, err := w.full.Prove(hashes)
			verifAssume(err == nil)
			verifCheckOwned("C17.MapPollard.Prove")
			verifOwn(pr.Targets, "result.MapPollard.Prove.targets")
			verifOwn(pr.Proof, "result.MapPollard.Prove.proof")
		}
		if w.part != nil {
			w.part.GetMissingPositions(targets)
			verifCheckOwned("C17.MapPollard.GetMissingPositions")
			verifAssume(w.part.VerifyPartialProof(targets, hashes, proofHashes, true) == nil)
			verifCheckOwned("C17.MapPollard.VerifyPartialProof")
		}
	}
	// verifier-state update and cached-proof update
	st := Stump{Roots: refCopyHashes(w.st.Roots), NumLeaves: w.st.NumLeaves}
	ud, err := st.Update(hashes, adds, proof)
	verifAssume(err == nil)
	verifCheckOwned("C17.Stump.Update")
	verifOwn(ud.ToDestroy, "result.UpdateData.ToDestroy")
	verifOwn(ud.NewDelHash, "result.UpdateData.NewDelHash")
	verifOwn(ud.NewDelPos, "result.UpdateData.NewDelPos")
	verifOwn(ud.NewAddHash, "result.UpdateData.NewAddHash")
	verifOwn(ud.NewAddPos, "result.UpdateData.NewAddPos")
	// remembered additions: any subset of the block's additions (indexes ascending) when remSub=1,
	// every addition otherwise
	var rem []uint32
	if verifParam("remSub", 0) == 1 {
		var pool []int
		for i := range adds {
			pool = append(pool, i)
		}
		for _, i := range refPickCombo("remember", pool, len(pool)) {
			rem = append(rem, uint32(i))
		}
		verifOwn(rem, "block.remembers")
	} else {
		for i := range adds {
			rem = append(rem, uint32(i))
		}
	}
	cp := cachedProof
	newHashes, err := cp.Update(cachedHashes, adds, targets, rem, ud)
	verifAssume(err == nil)
	verifCheckOwned("C17.Proof.Update")
	undone := cp
	_, err = undone.Undo(uint64(len(adds)), st.NumLeaves, targets, hashes, newHashes, ud.ToDestroy, proof)
	verifAssume(err == nil)
	verifCheckOwned("C17.Proof.Undo")

	// block application and undo on the forests
	leaves := c01Leaves(adds, true)
	verifOwn(leaves, "block.leaves")
	if w.p != nil {
		verifAssume(w.p.Modify(leaves, hashes, proof) == nil)
		verifCheckOwned("C17.Pollard.Modify")
		verifAssume(w.p.Undo(uint64(len(adds)), proof, hashes, prevRoots) == nil)
		verifCheckOwned("C17.Pollard.Undo")
	}
	if w.full != nil {
		verifAssume(w.full.Modify(leaves, hashes, proof) == nil)
		verifCheckOwned("C17.MapPollard.Modify")
		verifAssume(w.full.Undo(uint64(len(adds)), proof, hashes, prevRoots) == nil)
		verifCheckOwned("C17.MapPollard.Undo")
	}
	if w.part != nil {
		verifAssume(w.part.Modify(leaves, hashes, proof) == nil)
		verifCheckOwned("C17.MapPollard(partial).Modify")
		verifAssume(w.part.Undo(uint64(len(adds)), proof, hashes, prevRoots) == nil)
		verifCheckOwned("C17.MapPollard(partial).Undo")
	}
	// the same block data is still good for another instance
	st2 := Stump{Roots: refCopyHashes(w.st.Roots), NumLeaves: w.st.NumLeaves}
	_, err = st2.Update(hashes, adds, proof)
	verifAssert(err == nil, "C17.block-reusable")
	verifCheckOwned("C17.final")
	verifReach("C17.calls")
}
