//go:build verif

package utreexo

// C08 — undoing a cached proof yields a canonical proof for the previous state.
// Step form: canonical cached proof at any RM shape, one honest block (Stump.Update + Proof.Update),
// then Proof.Undo with that block's data; obligations O1..O6 kept separate.

// kfDestroyed: open finding F-C08-2 applies when the undone block's additions overwrote an empty root.
func c08CheckUndone(c *lightClient, prevHeld []int, b *refBlockT, rm *refForest, v *refView, prevStump Stump, first int, id string, kfDestroyed bool, lost *c08Lost) {
	// expected: leaves held after the block that already existed before it = prevHeld minus deleted
	var want []int
	for _, s := range prevHeld {
		del := false
		for _, d := range b.delSlots {
			if d == s {
				del = true
			}
		}
		if !del {
			want = append(want, s)
		}
	}
	n := len(c.hashes)
	verifAssert(len(c.proof.Targets) == n, id+".len-consistent")
	if len(c.proof.Targets) != n {
		return
	}
	// O1 no leaf added by the undone block, O2 no invented leaf
	for i := 0; i < n; i++ {
		isAdd := false
		for _, a := range b.adds {
			if c.hashes[i] == a {
				isAdd = true
			}
		}
		verifAssert(!isAdd, id+".O1-no-added-leaf")
		known := false
		for _, s := range want {
			if c.hashes[i] == rm.leaves[s].hash {
				known = true
			}
		}
		verifAssert(known || isAdd, id+".O2-no-invented-leaf")
	}
	// O3 nothing lost, O4 positions
	var idx []int
	allThere := true
	for _, s := range want {
		x := v.leafIdx[s]
		idx = append(idx, x)
		found := false
		for i := 0; i < n; i++ {
			if c.hashes[i] == rm.leaves[s].hash {
				found = true
				verifAssert(c.proof.Targets[i] == v.nodes[x].pos, id+".O4-position")
			}
		}
		// a leaf lost under the open finding at an earlier undo step stays lost at the deeper ones
		verifAssertKF(found, id+".O3-not-lost", "F-C08-2", kfDestroyed || lost.has(s))
		if !found {
			allThere = false
			if lost != nil {
				lost.slots = append(lost.slots, s)
			}
		}
	}
	if !allThere || n != len(want) {
		return
	}
	// O5 canonical proof for the previous state
	wantProof := v.proofHashes(idx)
	verifAssert(len(c.proof.Proof) == len(wantProof), id+".O5-proof-len")
	if len(c.proof.Proof) == len(wantProof) {
		for i := range wantProof {
			verifAssert(c.proof.Proof[i] == wantProof[i], id+".O5-proof-hash")
		}
	}
	// O6 verifies against the previous stump
	if n > 0 {
		_, err := Verify(prevStump, c.hashes, c.proof)
		verifAssert(err == nil, id+".O6-verifies")
	}
}

// c08Lost: slots of leaves the client lost under the open finding F-C08-2 at an earlier undo step.
type c08Lost struct{ slots []int }

func (l *c08Lost) has(s int) bool {
	if l == nil {
		return false
	}
	for _, x := range l.slots {
		if x == s {
			return true
		}
	}
	return false
}

func HarnessC08Step() {
	rm := refShape(verifParam("N", 4))
	v := rm.view()
	c := &lightClient{stump: rm.stump()}
	c.held = refPickCombo("held", rm.liveSlots(), verifParam("H", 64))
	c.canonical(rm, v)
	prevHeld := c.held
	prevStump := rm.stump()
	b := rm.refBlock(v, verifParam("D", 2), verifParam("A", 2))
	rem := c07Remember(len(b.adds))
	first := len(rm.leaves)
	// the block's update data is needed for the undo
	st2 := rm.stump()
	ud, err := st2.Update(b.hashes, b.adds, b.proof)
	verifAssume(err == nil)
	if !c.step(b, rem, first) {
		return
	}
	hs, err := c.proof.Undo(uint64(len(b.adds)), c.stump.NumLeaves, b.proof.Targets, b.hashes, c.hashes, ud.ToDestroy, b.proof)
	verifAssert(err == nil, "C08.Undo.err")
	if err != nil {
		return
	}
	c.hashes = hs
	c08CheckUndone(c, prevHeld, b, rm, v, prevStump, first, "C08.step", len(ud.ToDestroy) > 0, nil)
	verifReach("C08.step")
}

type c08Rec struct {
	b         *refBlockT
	rm        *refForest
	v         *refView
	prevStump Stump
	prevHeld  []int
	first     int
	toDestroy []uint64
}

// HarnessC08History: B blocks from empty (client steps as in C07), then undo the last d blocks
// newest first (d case-split 1..B) checking O1..O6 after every undo, then one further block
// (redo on another branch) re-checked with C07's assertions.
func HarnessC08History() {
	rm := &refForest{}
	c := &lightClient{}
	blocks := verifParam("B", 2)
	maxN := verifParam("N", 4)
	var recs []c08Rec
	for k := 0; k < blocks; k++ {
		v := rm.view()
		room := maxN - len(rm.leaves)
		b := rm.refBlock(v, verifParam("D", 1), refMin(verifParam("A", 2), room))
		rem := c07Remember(len(b.adds))
		st2 := rm.stump()
		ud, err := st2.Update(b.hashes, b.adds, b.proof)
		verifAssume(err == nil)
		recs = append(recs, c08Rec{b, rm, v, rm.stump(), c.held, len(rm.leaves), ud.ToDestroy})
		if !c.step(b, rem, len(rm.leaves)) {
			return
		}
		rm = rm.apply(b)
	}
	d := verifChoose("undoDepth", 1, blocks)
	lost := &c08Lost{}
	for k := blocks - 1; k >= blocks-d; k-- {
		r := recs[k]
		hs, err := c.proof.Undo(uint64(len(r.b.adds)), c.stump.NumLeaves, r.b.proof.Targets, r.b.hashes, c.hashes, r.toDestroy, r.b.proof)
		verifAssert(err == nil, "C08.Undo.err")
		if err != nil {
			return
		}
		c.hashes = hs
		c.stump = r.prevStump
		// "its leaves that already existed before the block": what the client is specified to hold at this
		// moment, restricted to slots older than the block (at depth 1 this is what it held before the block
		// minus the block's deletions; deeper, leaves deleted by a block undone earlier do not come back)
		var eff []int
		for _, s := range c.held {
			if s < r.first {
				eff = append(eff, s)
			}
		}
		c08CheckUndone(c, eff, r.b, r.rm, r.v, r.prevStump, r.first, "C08.history", len(r.toDestroy) > 0, lost)
		// what the client is specified to hold now
		var held []int
		for _, s := range eff {
			del := false
			for _, x := range r.b.delSlots {
				if x == s {
					del = true
				}
			}
			if !del {
				held = append(held, s)
			}
		}
		c.held = held
		rm = r.rm
	}
	// redo on another branch
	v := rm.view()
	c.stump = rm.stump()
	b := rm.refBlock(v, verifParam("D", 1), refMin(verifParam("A", 2), maxN+1-len(rm.leaves)))
	rem := c07Remember(len(b.adds))
	if !c.step(b, rem, len(rm.leaves)) {
		return
	}
	rm = rm.apply(b)
	c.check(rm, rm.view(), "C08.redo")
	verifReach("C08.history")
}
