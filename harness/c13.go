//go:build verif

package utreexo

// C13 — serialization round-trips exactly; damaged streams are never accepted silently.
// symWriter: a sink that accepts bytes until a SYMBOLIC failure offset F (or never fails).
// symReader: serves a SYMBOLIC prefix of length T of the written stream; at most one Read call
// (case split: which one) is short (case split: how short); optionally the last data arrives
// together with io.EOF.

import "io"

type symWriter struct {
	data   []byte
	failAt int // bytes accepted before the sink fails; < 0: never fails
}

type c13WriteErr struct{}

func (c13WriteErr) Error() string { return "sink failed" }

func (w *symWriter) Write(p []byte) (int, error) {
	if w.failAt >= 0 && len(w.data)+len(p) > w.failAt {
		n := w.failAt - len(w.data)
		if n < 0 {
			n = 0
		}
		w.data = append(w.data, p[:n]...)
		return n, c13WriteErr{}
	}
	w.data = append(w.data, p...)
	return len(p), nil
}

type symReader struct {
	data      []byte
	limit     int // T: bytes available (symbolic)
	off       int
	done      bool // a read was cut by the limit: only EOF follows
	calls     int
	shortCall int // index of the Read call that is short (-1: none)
	shortBy   int // how many bytes fewer it returns
	eofWith   bool
}

func (r *symReader) Read(p []byte) (int, error) {
	call := r.calls
	r.calls++
	if len(p) == 0 {
		return 0, nil
	}
	if r.done {
		return 0, io.EOF
	}
	avail := r.limit - r.off
	if avail <= 0 {
		r.done = true
		return 0, io.EOF
	}
	want := len(p)
	if call == r.shortCall && want-r.shortBy >= 1 {
		want -= r.shortBy
	}
	if avail >= want {
		for i := 0; i < want; i++ {
			p[i] = r.data[r.off+i]
		}
		r.off += want
		if r.eofWith && avail == want {
			r.done = true
			return want, io.EOF
		}
		return want, nil
	}
	// the prefix ends inside this read: avail is symbolic in (0, want)
	for i := 0; i < want && r.off+i < len(r.data); i++ {
		p[i] = uint8(verifIteU64(i < avail, uint64(r.data[r.off+i]), uint64(p[i])))
	}
	r.done = true
	return avail, nil
}

func c13Reader(data []byte, id string) *symReader {
	r := &symReader{data: data, shortCall: -1}
	if verifParam("plainReader", 0) == 1 {
		r.limit = len(data)
		return r
	}
	r.limit = verifNondetInt(id + ".T")
	verifAssume(r.limit >= 0)
	verifAssume(r.limit <= len(data))
	if verifParam("S", 1) >= 1 {
		r.shortCall = verifChoose(id+".shortCall", -1, verifParam("maxCall", 12))
		if r.shortCall >= 0 {
			r.shortBy = verifChoose(id+".shortBy", 1, verifParam("maxShortBy", 2))
		}
	}
	r.eofWith = verifChoose(id+".eofWithData", 0, 1) == 1
	return r
}

// ---- Pollard ----

func HarnessC13PollardWrite() {
	w := newWorld()
	w.history("C13.history", false)
	sw := &symWriter{failAt: verifNondetInt("F")}
	size := w.p.SerializeSize()
	verifAssume(sw.failAt >= -1)
	verifAssume(sw.failAt <= size)
	n, err := w.p.WriteTo(sw)
	produced := int64(len(sw.data))
	if sw.failAt < 0 || sw.failAt >= size {
		verifAssert(err == nil, "C13.pollard.write-ok")
		verifAssert(n == produced, "C13.pollard.write-count")
		verifAssert(int(produced) == size, "C13.pollard.SerializeSize")
	} else {
		verifAssert(err != nil, "C13.pollard.failing-sink-reported")
	}
	verifReach("C13.pollard.write")
}

func HarnessC13PollardRoundTrip() {
	w := newWorld()
	w.history("C13.history", false)
	sw := &symWriter{failAt: -1}
	n, err := w.p.WriteTo(sw)
	verifAssume(err == nil)
	verifAssume(int(n) == len(sw.data))
	streamLen := len(sw.data)
	data := sw.data
	if verifParam("trail", 0) > 0 {
		// the forest is followed by other data in the same stream: restore must consume only its own bytes
		data = make([]byte, streamLen, streamLen+verifParam("trail", 0))
		copy(data, sw.data)
		for i := 0; i < verifParam("trail", 0); i++ {
			data = append(data, verifNondetU8("trailing"))
		}
	}
	r := c13Reader(data, "pollard")
	read, q, err := RestorePollardFrom(r)
	full := r.limit >= streamLen
	if verifParam("trail", 0) > 0 && err == nil && r.limit == len(data) {
		verifAssert(r.off == streamLen, "C13.pollard.consumes-only-its-own-bytes")
	}
	if full {
		verifAssert(err == nil, "C13.pollard.restore-ok")
		if err == nil {
			verifAssert(int(read) == streamLen, "C13.pollard.read-count")
		}
	}
	if err == nil {
		// accepted: must be the original (for a strict prefix: error or identical state)
		v := w.rm.view()
		c06ObservePollard(q, w.rm, v, refPickCombo("req", w.rm.liveSlots(), verifParam("K", 1)), "C13.pollard.restored")
		verifAssert(q.NumDels == w.p.NumDels, "C13.pollard.restored.numDels")
		if verifParam("evolve", 0) == 1 {
			b := w.rm.refBlock(v, 1, verifParam("A2", 2))
			verifAssert(q.Modify(c01Leaves(b.adds, true), b.hashes, b.proof) == nil, "C13.pollard.restored.modify")
			nrm := w.rm.apply(b)
			nv := nrm.view()
			c01CheckRoots(q.GetRoots(), q.GetNumLeaves(), nv, "C13.pollard.restored.evolves")
			// the restored forest keeps proving every live leaf after the block
			c06ObservePollard(q, nrm, nv, nrm.liveSlots(), "C13.pollard.restored.evolved")
			if verifParam("evolve2", 0) == 1 {
				// and a second block on top (what the first one left behind is used by the next)
				b2 := nrm.refBlock(nv, 1, 1)
				verifAssert(q.Modify(c01Leaves(b2.adds, true), b2.hashes, b2.proof) == nil, "C13.pollard.restored.modify2")
				nrm2 := nrm.apply(b2)
				nv2 := nrm2.view()
				c01CheckRoots(q.GetRoots(), q.GetNumLeaves(), nv2, "C13.pollard.restored.evolves2")
				c06ObservePollard(q, nrm2, nv2, nrm2.liveSlots(), "C13.pollard.restored.evolved2")
			}
		}
	}
	verifReach("C13.pollard.roundtrip")
}

// ---- MapPollard ----

func c13Map(w *world) (*MapPollard, []int) {
	if w.full != nil {
		return w.full, w.rm.liveSlots()
	}
	return w.part, w.partHeld
}

func HarnessC13MapWrite() {
	w := newWorld()
	w.history("C13.history", false)
	m, _ := c13Map(w)
	// size from a reference run with a healthy sink
	ref := &symWriter{failAt: -1}
	n0, err0 := m.Write(ref)
	verifAssert(err0 == nil, "C13.map.write-ok")
	verifAssert(n0 == len(ref.data), "C13.map.write-count")
	sw := &symWriter{failAt: verifNondetInt("F")}
	verifAssume(sw.failAt >= 0)
	verifAssume(sw.failAt < len(ref.data))
	_, err := m.Write(sw)
	verifAssert(err != nil, "C13.map.failing-sink-reported")
	verifReach("C13.map.write")
}

func HarnessC13MapRoundTrip() {
	w := newWorld()
	w.history("C13.history", false)
	m, tracked := c13Map(w)
	sw := &symWriter{failAt: -1}
	n, err := m.Write(sw)
	verifAssume(err == nil)
	verifAssume(n == len(sw.data))
	streamLen := len(sw.data)
	data := sw.data
	if verifParam("trail", 0) > 0 {
		data = make([]byte, streamLen, streamLen+verifParam("trail", 0))
		copy(data, sw.data)
		for i := 0; i < verifParam("trail", 0); i++ {
			data = append(data, verifNondetU8("trailing"))
		}
	}
	r := c13Reader(data, "map")
	q := NewMapPollard(m.Full)
	read, err := q.Read(r)
	full := r.limit >= streamLen
	if verifParam("trail", 0) > 0 && err == nil && r.limit == len(data) {
		verifAssert(r.off == streamLen, "C13.map.consumes-only-its-own-bytes")
	}
	if full {
		verifAssert(err == nil, "C13.map.restore-ok")
		if err == nil {
			verifAssert(read == streamLen, "C13.map.read-count")
		}
	}
	if err == nil {
		v := w.rm.view()
		verifAssert(q.TotalRows == m.TotalRows, "C13.map.restored.totalRows")
		c06ObserveMap(&q, tracked, w.rm, v, refPickCombo("req", tracked, verifParam("K", 1)), "C13.map.restored")
		// the stored node map and the leaf cache are restored entry for entry (hash and remember flag:
		// the flag decides what later pruning and deletions keep, i.e. how the forest evolves)
		on := storedNodes(m)
		verifAssert(len(on) == q.Nodes.Length(), "C13.map.restored.node-count")
		for _, sn := range on {
			got, ok := q.Nodes.Get(sn.pos)
			verifAssert(ok, "C13.map.restored.node-present")
			if ok {
				verifAssert(got.Hash == sn.leaf.Hash, "C13.map.restored.node-hash")
				verifAssert(got.Remember == sn.leaf.Remember, "C13.map.restored.node-remember-flag")
			}
		}
		verifAssert(m.CachedLeaves.Length() == q.CachedLeaves.Length(), "C13.map.restored.cache-count")
		if verifParam("evolve", 0) == 1 && m.Full {
			b := w.rm.refBlock(v, 1, 1)
			verifAssert(q.Modify(c01Leaves(b.adds, false), b.hashes, b.proof) == nil, "C13.map.restored.modify")
			nrm := w.rm.apply(b)
			nv := nrm.view()
			c01CheckRoots(q.GetRoots(), q.GetNumLeaves(), nv, "C13.map.restored.evolves")
			c06ObserveMap(&q, nrm.liveSlots(), nrm, nv, nrm.liveSlots(), "C13.map.restored.evolved")
			if verifParam("evolve2", 0) == 1 {
				b2 := nrm.refBlock(nv, 1, 1)
				verifAssert(q.Modify(c01Leaves(b2.adds, false), b2.hashes, b2.proof) == nil, "C13.map.restored.modify2")
				nrm2 := nrm.apply(b2)
				nv2 := nrm2.view()
				c01CheckRoots(q.GetRoots(), q.GetNumLeaves(), nv2, "C13.map.restored.evolves2")
				c06ObserveMap(&q, nrm2.liveSlots(), nrm2, nv2, nrm2.liveSlots(), "C13.map.restored.evolved2")
			}
		}
	}
	verifReach("C13.map.roundtrip")
}
