//go:build verif

package utreexo

// world drives the same honest history through every implementation next to the reference model.

type world struct {
	rm   *refForest
	st   Stump
	p    *Pollard
	full *MapPollard
	part *MapPollard
	// slots the partial map forest has been asked to remember and that are still alive
	partHeld []int
	// per-block records (for undo)
	recs []worldRec
}

type worldRec struct {
	b         *refBlockT
	rm        *refForest
	v         *refView
	prevRoots []Hash
	prevHeld  []int
	first     int
}

func newWorld() *world {
	w := &world{rm: &refForest{}}
	t0 := verifParam("T0", 63)
	if verifParam("pollard", 1) == 1 {
		p := NewAccumulator()
		w.p = &p
	}
	if verifParam("mapfull", 1) == 1 {
		w.full = newMapPollardRows(true, t0)
	}
	if verifParam("mappart", 1) == 1 {
		w.part = newMapPollardRows(false, t0)
	}
	return w
}

func (w *world) removeHeld(slots []int) {
	var held []int
	for _, s := range w.partHeld {
		del := false
		for _, d := range slots {
			if d == s {
				del = true
			}
		}
		if !del {
			held = append(held, s)
		}
	}
	w.partHeld = held
}

func (w *world) addHeld(s int) {
	for _, x := range w.partHeld {
		if x == s {
			return
		}
	}
	w.partHeld = append(w.partHeld, s)
}

// block applies an honest block everywhere.  The partial forest first verifies the deletions with
// remember=true (it can only delete what it tracks) and gets case-split Remember flags on additions.
func (w *world) block(b *refBlockT, id string) {
	v := w.rm.view()
	rec := worldRec{b: b, rm: w.rm, v: v, prevRoots: refCopyHashes(v.roots), prevHeld: w.partHeld, first: len(w.rm.leaves)}
	_, err := w.st.Update(b.hashes, b.adds, b.proof)
	verifAssert(err == nil, id+".stump.accepts")
	if w.p != nil {
		err = w.p.Modify(c01Leaves(b.adds, true), b.hashes, b.proof)
		verifAssert(err == nil, id+".pollard.accepts")
	}
	if w.full != nil {
		err = w.full.Modify(c01Leaves(b.adds, false), b.hashes, w.fullProof(b.proof))
		verifAssert(err == nil, id+".mapfull.accepts")
	}
	if w.part != nil {
		if len(b.hashes) > 0 {
			err = w.part.Verify(b.hashes, b.proof, true)
			verifAssert(err == nil, id+".mappartial.verify-remember")
		}
		leaves := c01RememberLeaves(b.adds)
		err = w.part.Modify(leaves, b.hashes, b.proof)
		verifAssert(err == nil, id+".mappartial.accepts")
		w.removeHeld(b.delSlots)
		for i := range leaves {
			if leaves[i].Remember {
				w.addHeld(len(w.rm.leaves) + i)
			}
		}
	}
	w.recs = append(w.recs, rec)
	w.rm = w.rm.apply(b)
}

func (w *world) checkRoots(id string) {
	nv := w.rm.view()
	c01CheckRoots(w.st.Roots, w.st.NumLeaves, nv, id+".stump")
	if w.p != nil {
		c01CheckRoots(w.p.GetRoots(), w.p.GetNumLeaves(), nv, id+".pollard")
	}
	if w.full != nil {
		c01CheckRoots(w.full.GetRoots(), w.full.GetNumLeaves(), nv, id+".mapfull")
	}
	if w.part != nil {
		c01CheckRoots(w.part.GetRoots(), w.part.GetNumLeaves(), nv, id+".mappartial")
	}
}

// history runs B honest blocks from the current state within N leaves ever added.
func (w *world) history(id string, check bool) {
	blocks := verifParam("B", 2)
	maxN := verifParam("N", 4)
	first := verifParam("F", 0) // F > 0: the first block adds exactly F leaves (cheap way to reach big forests)
	for k := 0; k < blocks; k++ {
		v := w.rm.view()
		var b *refBlockT
		if k == 0 && first > 0 {
			b = &refBlockT{}
			for i := 0; i < first; i++ {
				h := verifLeafHash("add")
				if i == first-1 && first >= 3 && verifParam("innerLeaf", 0) == 1 && verifChoose("inner", 0, 1) == 1 {
					h = refParent(b.adds[0], b.adds[1]) // see refBlock: a leaf that hashes like an internal node
				}
				for j := range b.adds {
					verifAssume(h != b.adds[j])
				}
				b.adds = append(b.adds, h)
			}
		} else {
			d, a := verifParam("D", 2), verifParam("A", 2)
			if k == blocks-1 && k > 0 {
				// the last block may have its own (smaller) bounds
				d, a = verifParam("Dlast", d), verifParam("Alast", a)
			}
			b = w.rm.refBlock(v, d, refMin(a, maxN-len(w.rm.leaves)))
		}
		w.block(b, id)
		if check {
			w.checkRoots(id)
		}
	}
	// withUndo=1: the history may end with an undo of its last block (states "after Undo")
	if verifParam("withUndo", 0) == 1 && len(w.recs) > 0 && verifChoose("undoLast", 0, 1) == 1 {
		w.undoLast(id)
		if check {
			w.checkRoots(id + ".after-undo")
		}
	}
}

// undoLast undoes the most recent block on every forest (and resets the stump / RM to the earlier state).
func (w *world) undoLast(id string) {
	if len(w.recs) == 0 {
		return
	}
	r := w.recs[len(w.recs)-1]
	w.recs = w.recs[:len(w.recs)-1]
	na := uint64(len(r.b.adds))
	if w.p != nil {
		verifAssert(w.p.Undo(na, r.b.proof, r.b.hashes, r.prevRoots) == nil, id+".pollard.undo-ok")
	}
	if w.full != nil {
		verifAssert(w.full.Undo(na, w.fullProof(r.b.proof), r.b.hashes, r.prevRoots) == nil, id+".mapfull.undo-ok")
	}
	if w.part != nil {
		verifAssert(w.part.Undo(na, r.b.proof, r.b.hashes, r.prevRoots) == nil, id+".mappartial.undo-ok")
		w.partHeld = c14Union(r.prevHeld, r.b.delSlots)
	}
	w.rm = r.rm
	w.st = Stump{Roots: refCopyHashes(r.v.roots), NumLeaves: r.v.n}
}

// HarnessC01History: every implementation vs RM after every block.
func HarnessC01History() {
	w := newWorld()
	w.history("C01", true)
	verifReach("C01.history")
}

// ---- access to a map forest's stored state through the exported storage interfaces only ----

type storedNode struct {
	pos  uint64
	leaf Leaf
}

func storedNodes(m *MapPollard) []storedNode {
	var out []storedNode
	m.Nodes.ForEach(func(k uint64, v Leaf) error {
		out = append(out, storedNode{k, v})
		return nil
	})
	return out
}

type cachedLeaf struct {
	hash Hash
	pos  uint64
}

func cachedLeaves(m *MapPollard) []cachedLeaf {
	var out []cachedLeaf
	m.CachedLeaves.ForEach(func(k Hash, v uint64) error {
		out = append(out, cachedLeaf{k, v})
		return nil
	})
	return out
}

// fullProof: the proof handed to the full map forest.  bareFull=1: targets only - a full forest holds
// every node, its Modify reads the targets alone and its Undo rebuilds the hashes itself.
func (w *world) fullProof(p Proof) Proof {
	if verifParam("bareFull", 0) == 1 {
		return Proof{Targets: p.Targets}
	}
	return p
}
