//go:build verif

package utreexo

// C05 — an accepted block is applied identically by every implementation.
// State after an honest history.  Targets: positions of K live leaves in any order.  Claimed hashes
// and proof hashes (canonical length + up to J trailing extra hashes) are fully symbolic; the path
// condition is "Verify accepts" (or one of the forests' own Verify methods, acc=1..3).  Then the same
// block goes to every implementation.

func c05CheckRootsKF(roots []Hash, n uint64, v *refView, id string, kf bool) {
	verifAssert(n == v.n, id+".numLeaves")
	verifAssert(len(roots) == len(v.roots), id+".root-count")
	if len(roots) == len(v.roots) {
		for i := range v.roots {
			verifAssertKF(roots[i] == v.roots[i], id+".root", "F-C03-2", kf)
		}
	}
}

func HarnessC05AcceptedBlock() {
	w := newWorld()
	w.history("C05.history", false)
	v := w.rm.view()
	slots := refPickSubset("del", w.rm.liveSlots(), verifParam("K", 2))
	if len(slots) == 0 {
		return
	}
	var tg []uint64
	var idx []int
	for _, s := range slots {
		x := v.leafIdx[s]
		idx = append(idx, x)
		tg = append(tg, v.nodes[x].pos)
	}
	canon := len(v.proofHashes(idx))
	m := canon + verifChoose("junk", 0, verifParam("J", 1))
	// lenFree=1: the number of claimed hashes is free too (0..K), not tied to the number of targets
	nh := len(tg)
	if verifParam("lenFree", 0) == 1 {
		nh = verifChoose("nhashes", 0, len(tg))
	}
	hs := make([]Hash, nh)
	pf := make([]Hash, m)
	for i := range hs {
		hs[i] = verifNondetHash("claim")
		verifAssume(hs[i] != Hash{})
	}
	for i := range pf {
		pf[i] = verifNondetHash("proof")
	}
	proof := Proof{Targets: tg, Proof: pf}
	// acc: whose acceptance is the path condition: 0 the stand-alone Verify, 1 Pollard.Verify, 2 the full
	// map forest's Verify, 3 the partial map forest's Verify
	idxs, err := Verify(w.st, hs, proof)
	switch verifParam("acc", 0) {
	case 1:
		err = w.p.Verify(hs, proof, false)
	case 2:
		err = w.full.Verify(hs, proof, false)
	case 3:
		err = w.part.Verify(hs, proof, false)
	}
	if err != nil {
		verifReach("C05.rejected")
		return
	}
	wrongTree := kfWrongTree(v, tg, idxs)
	// additions
	na := verifChoose("adds", 0, verifParam("A2", 1))
	var adds []Hash
	for i := 0; i < na; i++ {
		h := verifLeafHash("add")
		for j := range w.rm.leaves {
			if w.rm.leaves[j].alive {
				verifAssume(h != w.rm.leaves[j].hash)
			}
		}
		for j := range adds {
			verifAssume(h != adds[j])
		}
		adds = append(adds, h)
	}
	b := &refBlockT{delSlots: slots, targets: tg, hashes: hs, proof: proof, adds: adds, tIdx: idx}
	after := w.rm.apply(b)
	av := after.view()

	verifOwn(hs, "block.hashes")
	verifOwn(tg, "block.targets")
	verifOwn(pf, "block.proof")
	_, err = w.st.Update(hs, adds, proof)
	verifAssert(err == nil, "C05.stump.applies")
	if err == nil {
		c05CheckRootsKF(w.st.Roots, w.st.NumLeaves, av, "C05.stump", wrongTree)
	}
	if w.p != nil {
		err = w.p.Modify(c01Leaves(adds, true), hs, proof)
		verifAssertKF(err == nil, "C05.pollard.applies", "F-C03-2", wrongTree)
		if err == nil {
			c05CheckRootsKF(w.p.GetRoots(), w.p.GetNumLeaves(), av, "C05.pollard", wrongTree)
		}
	}
	if w.full != nil {
		err = w.full.Modify(c01Leaves(adds, false), hs, proof)
		verifAssertKF(err == nil, "C05.mapfull.applies", "F-C03-2", wrongTree)
		if err == nil {
			c05CheckRootsKF(w.full.GetRoots(), w.full.GetNumLeaves(), av, "C05.mapfull", wrongTree)
		}
	}
	if w.part != nil {
		err = w.part.Verify(hs, proof, true)
		verifAssert(err == nil, "C05.mappartial.verify-remember")
		err = w.part.Modify(c01Leaves(adds, false), hs, proof)
		verifAssertKF(err == nil, "C05.mappartial.applies", "F-C03-2", wrongTree)
		if err == nil {
			c05CheckRootsKF(w.part.GetRoots(), w.part.GetNumLeaves(), av, "C05.mappartial", wrongTree)
		}
	}
	verifCheckOwned("C17.block-application")
	verifReach("C05.accepted")
}

// HarnessC05Assembled: the block's proof is not the prover's output but assembled by the library:
// mode 1: AddProof of the proofs of two selections; mode 2: GetProofSubset of a bigger proof;
// mode 3: a light client's cached proof after Proof.Update over one block.  The assembled
// (hashes, proof) must be accepted by Verify and applied identically everywhere.
func HarnessC05Assembled() {
	w := newWorld()
	mode := verifParam("mode", 1)
	var client *lightClient
	if mode == 3 {
		// the client follows the history from the start, remembering every addition
		client = &lightClient{}
		blocks := verifParam("B", 2)
		maxN := verifParam("N", 4)
		for k := 0; k < blocks; k++ {
			v := w.rm.view()
			b := w.rm.refBlock(v, verifParam("D", 1), refMin(verifParam("A", 2), maxN-len(w.rm.leaves)))
			var rem []uint32
			for i := range b.adds {
				rem = append(rem, uint32(i))
			}
			first := len(w.rm.leaves)
			w.block(b, "C05.history")
			if !client.step(b, rem, first) {
				return
			}
		}
	} else {
		w.history("C05.history", false)
	}
	v := w.rm.view()
	live := w.rm.liveSlots()
	var hs []Hash
	var proof Proof
	var slots []int
	switch mode {
	case 1:
		sa := refPickSubset("A", live, verifParam("K", 2))
		sb := refPickSubset("B", live, verifParam("K", 2))
		pa, ha, _ := c14Proof(w.rm, v, sa)
		pb, hb, _ := c14Proof(w.rm, v, sb)
		hs, proof = AddProof(pa, pb, ha, hb, v.n)
		slots = c14Union(sa, sb)
	case 2:
		sa := refPickSubset("A", live, verifParam("K", 3))
		pa, ha, _ := c14Proof(w.rm, v, sa)
		sw := refPickSubset("W", sa, verifParam("K", 3))
		if len(sw) == 0 {
			return
		}
		var wants []uint64
		for _, s := range sw {
			wants = append(wants, v.nodes[v.leafIdx[s]].pos)
		}
		var err error
		hs, proof, err = GetProofSubset(pa, ha, wants, v.n)
		verifAssert(err == nil, "C05.assembled.subset-ok")
		if err != nil {
			return
		}
		slots = sw
	case 3:
		hs, proof = client.hashes, client.proof
		slots = client.held
	}
	if len(slots) == 0 {
		return
	}
	_, err := Verify(w.st, hs, proof)
	verifAssert(err == nil, "C05.assembled.accepted")
	if err != nil {
		return
	}
	b := &refBlockT{delSlots: slots, targets: proof.Targets, hashes: hs, proof: proof}
	after := w.rm.apply(b)
	av := after.view()
	_, err = w.st.Update(hs, nil, proof)
	verifAssert(err == nil, "C05.assembled.stump.applies")
	c01CheckRoots(w.st.Roots, w.st.NumLeaves, av, "C05.assembled.stump")
	if w.p != nil {
		verifAssert(w.p.Modify(nil, hs, proof) == nil, "C05.assembled.pollard.applies")
		c01CheckRoots(w.p.GetRoots(), w.p.GetNumLeaves(), av, "C05.assembled.pollard")
	}
	if w.full != nil {
		verifAssert(w.full.Modify(nil, hs, proof) == nil, "C05.assembled.mapfull.applies")
		c01CheckRoots(w.full.GetRoots(), w.full.GetNumLeaves(), av, "C05.assembled.mapfull")
	}
	if w.part != nil {
		verifAssert(w.part.Verify(hs, proof, true) == nil, "C05.assembled.mappartial.verify-remember")
		verifAssert(w.part.Modify(nil, hs, proof) == nil, "C05.assembled.mappartial.applies")
		c01CheckRoots(w.part.GetRoots(), w.part.GetNumLeaves(), av, "C05.assembled.mappartial")
	}
	verifReach("C05.assembled")
}
