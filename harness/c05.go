//go:build verif

package utreexo

// C05 — an accepted block is applied identically by every implementation.
// State after an honest history.  Targets: positions of K live leaves in any order.  Claimed hashes
// and proof hashes (canonical length + up to J trailing extra hashes) are fully symbolic; the path
// condition is "Verify accepts".  Then the same block goes to every implementation.

func c05CheckRootsKF(roots []Hash, n uint64, v *refView, id string, kf bool) {
	verifAssert(n == v.n, id+".numLeaves")
	verifAssert(len(roots) == len(v.roots), id+".root-count")
	if len(roots) == len(v.roots) {
		for i := range v.roots {
			verifAssertKF(roots[i] == v.roots[i], id+".root", "F-C03-2", kf)
		}
	}
}

func HarnessC05AcceptedBlock() {
	w := newWorld()
	w.history("C05.history", false)
	v := w.rm.view()
	slots := refPickSubset("del", w.rm.liveSlots(), verifParam("K", 2))
	if len(slots) == 0 {
		return
	}
	var tg []uint64
	var idx []int
	for _, s := range slots {
		x := v.leafIdx[s]
		idx = append(idx, x)
		tg = append(tg, v.nodes[x].pos)
	}
	canon := len(v.proofHashes(idx))
	m := canon + verifChoose("junk", 0, verifParam("J", 1))
	hs := make([]Hash, len(tg))
	pf := make([]Hash, m)
	for i := range hs {
		hs[i] = verifNondetHash("claim")
		verifAssume(hs[i] != Hash{})
	}
	for i := range pf {
		pf[i] = verifNondetHash("proof")
	}
	proof := Proof{Targets: tg, Proof: pf}
	idxs, err := Verify(w.st, hs, proof)
	if err != nil {
		verifReach("C05.rejected")
		return
	}
	wrongTree := kfWrongTree(v, tg, idxs)
	// additions
	na := verifChoose("adds", 0, verifParam("A2", 1))
	var adds []Hash
	for i := 0; i < na; i++ {
		h := verifLeafHash("add")
		for j := range w.rm.leaves {
			if w.rm.leaves[j].alive {
				verifAssume(h != w.rm.leaves[j].hash)
			}
		}
		for j := range adds {
			verifAssume(h != adds[j])
		}
		adds = append(adds, h)
	}
	b := &refBlockT{delSlots: slots, targets: tg, hashes: hs, proof: proof, adds: adds, tIdx: idx}
	after := w.rm.apply(b)
	av := after.view()

	verifOwn(hs, "block.hashes")
	verifOwn(tg, "block.targets")
	verifOwn(pf, "block.proof")
	_, err = w.st.Update(hs, adds, proof)
	verifAssert(err == nil, "C05.stump.applies")
	if err == nil {
		c05CheckRootsKF(w.st.Roots, w.st.NumLeaves, av, "C05.stump", wrongTree)
	}
	if w.p != nil {
		err = w.p.Modify(c01Leaves(adds, true), hs, proof)
		verifAssertKF(err == nil, "C05.pollard.applies", "F-C03-2", wrongTree)
		if err == nil {
			c05CheckRootsKF(w.p.GetRoots(), w.p.GetNumLeaves(), av, "C05.pollard", wrongTree)
		}
	}
	if w.full != nil {
		err = w.full.Modify(c01Leaves(adds, false), hs, proof)
		verifAssertKF(err == nil, "C05.mapfull.applies", "F-C03-2", wrongTree)
		if err == nil {
			c05CheckRootsKF(w.full.GetRoots(), w.full.GetNumLeaves(), av, "C05.mapfull", wrongTree)
		}
	}
	if w.part != nil {
		err = w.part.Verify(hs, proof, true)
		verifAssert(err == nil, "C05.mappartial.verify-remember")
		err = w.part.Modify(c01Leaves(adds, false), hs, proof)
		verifAssertKF(err == nil, "C05.mappartial.applies", "F-C03-2", wrongTree)
		if err == nil {
			c05CheckRootsKF(w.part.GetRoots(), w.part.GetNumLeaves(), av, "C05.mappartial", wrongTree)
		}
	}
	verifCheckOwned("C17.block-application")
	verifReach("C05.accepted")
}
