//go:build verif

package utreexo

// RM — the reference model (oracle).  It depends on nothing in /repo except the
// type Hash: its hash primitive is refParent (SHA-512/256 of the concatenation,
// mapped by the engine to the constructor Node(l,r) of the free hash algebra)
// and its geometry is its own start(r,h) = 2^(h+1) - 2^(h+1-r) arithmetic.
//
// State: slot i = i-th leaf ever added, with its hash and whether it is alive.
// A dead leaf is nothing; nothing+X = X stands in for the parent; X+Y = Node(X,Y);
// a tree with nothing has the all-zero root.

type refLeaf struct {
	hash  Hash
	alive bool
}

type refForest struct {
	leaves []refLeaf
}

type refT struct {
	slot int // >= 0 for a leaf
	l, r *refT
}

type refNode struct {
	pos    uint64
	hash   Hash
	row    uint8
	parent int // index into view.nodes, -1 for a tree root
	sib    int // index of the sibling, -1 for a tree root
	left   bool
	slot   int // >= 0 for leaves
	tree   int // index of the tree (0 = biggest)
	t      *refT
}

type refView struct {
	n       uint64
	rows    uint8
	roots   []Hash   // biggest tree first, Zero for a tree without survivors
	rootPos []uint64 // position of every tree root slot (also of empty ones)
	rootRow []uint8
	nodes   []refNode
	leafIdx []int // slot -> index into nodes (-1 if dead)
}

func refRows(n uint64) uint8 {
	r := uint8(0)
	for r < 64 && (uint64(1)<<r) < n {
		r++
	}
	return r
}

func refStart(r, h uint8) uint64 {
	return (uint64(2) << h) - (uint64(2) << (h - r))
}

func (f *refForest) build(lo, size uint64, dead []bool) *refT {
	if size == 1 {
		if f.leaves[lo].alive && (dead == nil || !dead[lo]) {
			return &refT{slot: int(lo)}
		}
		return nil
	}
	l := f.build(lo, size/2, dead)
	r := f.build(lo+size/2, size/2, dead)
	if l == nil {
		return r
	}
	if r == nil {
		return l
	}
	return &refT{slot: -1, l: l, r: r}
}

func (f *refForest) hashOf(t *refT) Hash {
	if t == nil {
		return Hash{}
	}
	if t.slot >= 0 {
		return f.leaves[t.slot].hash
	}
	return refParent(f.hashOf(t.l), f.hashOf(t.r))
}

// hashOfWithout is the hash of subtree t once the leaves marked in dead are removed.
func (f *refForest) hashOfWithout(t *refT, dead []bool) Hash {
	if t == nil {
		return Hash{}
	}
	if t.slot >= 0 {
		if dead[t.slot] {
			return Hash{}
		}
		return f.leaves[t.slot].hash
	}
	l := f.hashOfWithout(t.l, dead)
	r := f.hashOfWithout(t.r, dead)
	if l == (Hash{}) {
		return r
	}
	if r == (Hash{}) {
		return l
	}
	return refParent(l, r)
}

func (f *refForest) place(v *refView, t *refT, row uint8, off uint64, parent int, left bool, tree int) int {
	idx := len(v.nodes)
	v.nodes = append(v.nodes, refNode{pos: refStart(row, v.rows) + off, hash: f.hashOf(t), row: row,
		parent: parent, sib: -1, left: left, slot: t.slot, tree: tree, t: t})
	if t.slot >= 0 {
		v.leafIdx[t.slot] = idx
		return idx
	}
	li := f.place(v, t.l, row-1, 2*off, idx, true, tree)
	ri := f.place(v, t.r, row-1, 2*off+1, idx, false, tree)
	v.nodes[li].sib = ri
	v.nodes[ri].sib = li
	return idx
}

// viewRows computes the derived data with positions expressed for a forest of `rows` rows
// (rows >= refRows(n)).
func (f *refForest) viewRows(rows uint8) *refView {
	n := uint64(len(f.leaves))
	v := &refView{n: n, rows: rows}
	v.leafIdx = make([]int, n)
	for i := range v.leafIdx {
		v.leafIdx[i] = -1
	}
	tree := 0
	for t := 63; t >= 0; t-- {
		if (n>>uint(t))&1 == 0 {
			continue
		}
		base := n &^ ((uint64(2) << uint(t)) - 1)
		rt := f.build(base, uint64(1)<<uint(t), nil)
		v.rootPos = append(v.rootPos, refStart(uint8(t), rows)+(base>>uint(t)))
		v.rootRow = append(v.rootRow, uint8(t))
		v.roots = append(v.roots, f.hashOf(rt))
		if rt != nil {
			f.place(v, rt, uint8(t), base>>uint(t), -1, false, tree)
		}
		tree++
	}
	return v
}

func (f *refForest) view() *refView {
	return f.viewRows(refRows(uint64(len(f.leaves))))
}

// nodeAt returns the index of the node at pos, or -1.
func (v *refView) nodeAt(pos uint64) int {
	for i := range v.nodes {
		if v.nodes[i].pos == pos {
			return i
		}
	}
	return -1
}

// hashAtSym is hashAt for a symbolic position: (exists, hash) as ite-chains, no forks.
func (v *refView) hashAtSym(pos uint64) (bool, Hash) {
	ex := false
	h := Hash{}
	for i := range v.nodes {
		hit := v.nodes[i].pos == pos
		ex = verifIteBool(hit, true, ex)
		h = verifIteHash(hit, v.nodes[i].hash, h)
	}
	return ex, h
}

// proofIdx returns the indexes of the proof nodes for the given target node indexes:
// siblings of all nodes on the target->root paths that are not themselves on such a path,
// ascending by position.  onPath is filled with the nodes on the paths (targets included).
func (v *refView) proofIdx(targets []int) (need []int, onPath []bool) {
	onPath = make([]bool, len(v.nodes))
	for _, t := range targets {
		for x := t; x >= 0; x = v.nodes[x].parent {
			onPath[x] = true
		}
	}
	for x := range v.nodes {
		if onPath[x] && v.nodes[x].parent >= 0 {
			s := v.nodes[x].sib
			if !onPath[s] {
				need = append(need, s)
			}
		}
	}
	// ascending by position (insertion sort on concrete positions)
	for i := 1; i < len(need); i++ {
		for j := i; j > 0 && v.nodes[need[j]].pos < v.nodes[need[j-1]].pos; j-- {
			need[j], need[j-1] = need[j-1], need[j]
		}
	}
	return need, onPath
}

func (v *refView) proofHashes(targets []int) []Hash {
	need, _ := v.proofIdx(targets)
	out := make([]Hash, len(need))
	for i, x := range need {
		out[i] = v.nodes[x].hash
	}
	return out
}

func (v *refView) proofPositions(targets []int) []uint64 {
	need, _ := v.proofIdx(targets)
	out := make([]uint64, len(need))
	for i, x := range need {
		out[i] = v.nodes[x].pos
	}
	return out
}

// ---- construction of reference states inside harnesses ----

// refShape draws a forest shape: n leaves ever added (1..maxN), any alive subset
// (case split), leaf hashes Atom(id) with symbolic pairwise distinct ids.
func refShape(maxN int) *refForest {
	n := verifChoose("n", verifParam("minN", 0), maxN)
	if verifParam("shapeMode", 0) == 1 {
		return refShapeTrees(n)
	}
	f := &refForest{}
	for i := 0; i < n; i++ {
		alive := verifChoose("alive", 0, 1) == 1
		h := verifLeafHash("leaf")
		for j := 0; j < i; j++ {
			verifAssume(h != f.leaves[j].hash)
		}
		f.leaves = append(f.leaves, refLeaf{hash: h, alive: alive})
	}
	return f
}

// refShapeTrees (shapeMode=1, for bigger forests): the dead leaves are any subset of whole trees plus at
// most `deadExtra` further single leaves (ascending).
func refShapeTrees(n int) *refForest {
	f := &refForest{}
	for i := 0; i < n; i++ {
		h := verifLeafHash("leaf")
		for j := 0; j < i; j++ {
			verifAssume(h != f.leaves[j].hash)
		}
		f.leaves = append(f.leaves, refLeaf{hash: h, alive: true})
	}
	v := f.view()
	deadTree := make([]bool, len(v.roots))
	for t := range deadTree {
		deadTree[t] = verifChoose("deadTree", 0, 1) == 1
	}
	var others []int
	for s := 0; s < n; s++ {
		if deadTree[v.nodes[v.leafIdx[s]].tree] {
			f.leaves[s].alive = false
		} else {
			others = append(others, s)
		}
	}
	for _, s := range refPickCombo("deadLeaf", others, verifParam("deadExtra", 1)) {
		f.leaves[s].alive = false
	}
	return f
}

// refShapeAlive is refShape with every leaf alive.
func refShapeAlive(maxN int) *refForest {
	n := verifChoose("n", 1, maxN)
	f := &refForest{}
	for i := 0; i < n; i++ {
		h := verifLeafHash("leaf")
		for j := 0; j < i; j++ {
			verifAssume(h != f.leaves[j].hash)
		}
		f.leaves = append(f.leaves, refLeaf{hash: h, alive: true})
	}
	return f
}

func (f *refForest) liveSlots() []int {
	var out []int
	for i := range f.leaves {
		if f.leaves[i].alive {
			out = append(out, i)
		}
	}
	return out
}

func (f *refForest) stump() Stump {
	v := f.view()
	roots := make([]Hash, len(v.roots))
	copy(roots, v.roots)
	return Stump{Roots: roots, NumLeaves: v.n}
}

func refCopyHashes(h []Hash) []Hash {
	out := make([]Hash, len(h))
	copy(out, h)
	return out
}

// ---- honest blocks ----

type refBlockT struct {
	delSlots []int    // deleted leaf slots, in the (case-split) order the caller presents them
	targets  []uint64 // their positions, same order
	hashes   []Hash   // their hashes, same order
	proof    Proof    // targets + canonical proof hashes from RM
	adds     []Hash
	tIdx     []int // node indexes of the targets in the pre-block view
}

// refPickSubset picks an ordered selection of up to max distinct elements of pool (any subset, any order).
func refPickSubset(name string, pool []int, max int) []int {
	k := verifChoose(name+".k", 0, refMin(max, len(pool)))
	rest := make([]int, len(pool))
	copy(rest, pool)
	var out []int
	for i := 0; i < k; i++ {
		j := verifChoose(name+".pick", 0, len(rest)-1)
		out = append(out, rest[j])
		rest = append(rest[:j], rest[j+1:]...)
	}
	return out
}

// refPickCombo picks any subset of pool with at most max elements, in pool order.
func refPickCombo(name string, pool []int, max int) []int {
	var out []int
	for _, x := range pool {
		if len(out) < max && verifChoose(name, 0, 1) == 1 {
			out = append(out, x)
		}
	}
	return out
}

func refMin(a, b int) int {
	if a < b {
		return a
	}
	return b
}

// refBlock draws an honest block for the current state: a deletion selection among live leaves in
// any order with RM's canonical proof, and 0..maxAdd fresh additions.
func (f *refForest) refBlock(v *refView, maxDel, maxAdd int) *refBlockT {
	b := &refBlockT{}
	if wt := verifParam("wholeTree", 0); wt >= 1 && len(v.roots) > 0 {
		// optionally all live leaves of one whole tree (wholeTree=1) or of any subset of the trees
		// (wholeTree=2), plus up to maxDel other leaves (ascending)
		pick := make([]bool, len(v.roots))
		if wt == 1 {
			if t := verifChoose("wholeTree", -1, len(v.roots)-1); t >= 0 {
				pick[t] = true
			}
		} else {
			for t := range pick {
				pick[t] = verifChoose("wholeTree", 0, 1) == 1
			}
		}
		var others []int
		for _, s := range f.liveSlots() {
			if pick[v.nodes[v.leafIdx[s]].tree] {
				b.delSlots = append(b.delSlots, s)
			} else {
				others = append(others, s)
			}
		}
		b.delSlots = append(b.delSlots, refPickCombo("del", others, maxDel)...)
	} else if verifParam("orderedDel", 1) == 1 {
		b.delSlots = refPickSubset("del", f.liveSlots(), maxDel)
	} else {
		b.delSlots = refPickCombo("del", f.liveSlots(), maxDel)
	}
	for _, s := range b.delSlots {
		x := v.leafIdx[s]
		b.tIdx = append(b.tIdx, x)
		b.targets = append(b.targets, v.nodes[x].pos)
		b.hashes = append(b.hashes, f.leaves[s].hash)
	}
	b.proof = Proof{Targets: b.targets, Proof: v.proofHashes(b.tIdx)}
	na := verifChoose("adds", 0, maxAdd)
	for i := 0; i < na; i++ {
		// readd=1: the first addition may be a leaf with the very hash of the first leaf this block deletes
		// (live leaves stay pairwise distinct: the old one is gone when the new one arrives)
		if i == 0 && len(b.delSlots) > 0 && verifParam("readd", 0) == 1 && verifChoose("readd", 0, 1) == 1 {
			b.adds = append(b.adds, f.leaves[b.delSlots[0]].hash)
			continue
		}
		h := verifLeafHash("add")
		// innerLeaf=1: the third addition of a block may be a leaf whose hash is the hash of the internal node
		// above the block's first two additions (legal: non-empty and distinct from every live leaf)
		if i == 2 && verifParam("innerLeaf", 0) == 1 && verifChoose("inner", 0, 1) == 1 {
			h = refParent(b.adds[0], b.adds[1])
		}
		for j := range f.leaves {
			if f.leaves[j].alive {
				verifAssume(h != f.leaves[j].hash)
			}
		}
		for j := range b.adds {
			verifAssume(h != b.adds[j])
		}
		b.adds = append(b.adds, h)
	}
	return b
}

// apply returns the state after the block.
func (f *refForest) apply(b *refBlockT) *refForest {
	g := &refForest{leaves: make([]refLeaf, len(f.leaves))}
	copy(g.leaves, f.leaves)
	for _, s := range b.delSlots {
		g.leaves[s].alive = false
	}
	for _, h := range b.adds {
		g.leaves = append(g.leaves, refLeaf{hash: h, alive: true})
	}
	return g
}

func (f *refForest) deadMask(b *refBlockT) []bool {
	dead := make([]bool, len(f.leaves))
	for _, s := range b.delSlots {
		dead[s] = true
	}
	return dead
}

// refDestroyed lists, in order of destruction and in post-block coordinates, the positions of the
// empty roots that `adds` additions overwrite.  emptyRoot[i] says whether tree i (biggest first) of
// the n-leaf forest is empty after the block's deletions.
func refDestroyed(n uint64, emptyRoot []bool, adds int) []uint64 {
	rows := refRows(n + uint64(adds))
	stack := make([]bool, len(emptyRoot))
	copy(stack, emptyRoot)
	var out []uint64
	m := n
	for i := 0; i < adds; i++ {
		for h := uint8(0); (m>>h)&1 == 1; h++ {
			e := stack[len(stack)-1]
			stack = stack[:len(stack)-1]
			if e {
				base := m &^ ((uint64(2) << h) - 1)
				out = append(out, refStart(h, rows)+(base>>h))
			}
		}
		stack = append(stack, false)
		m++
	}
	return out
}
