//go:build verif

package utreexo

// C16 — ProofPositions against its set specification (bounded): a forest of n leaves (all alive, so
// every geometric node exists), positions numbered for totalRows >= TreeRows(n); K symbolic targets
// under the documented precondition (ascending, distinct, existing nodes, none an ancestor of
// another).  For every node x of the forest:
//   x in result1  <=>  x is the sibling of a node on a target path, x itself is on no target path
//   x in result2  <=>  x is a proper ancestor of a target
// result1 ascending without duplicates; every returned value is a node of the forest.

func HarnessC16ProofPositions() {
	n := verifChoose("n", 1, verifParam("N", 8))
	f := &refForest{}
	for i := 0; i < n; i++ {
		f.leaves = append(f.leaves, refLeaf{hash: verifAtom(uint64(i + 1)), alive: true})
	}
	extra := verifChoose("extraRows", 0, verifParam("X", 1))
	rows := refRows(uint64(n)) + uint8(extra)
	if verifParam("rows63", 0) == 1 {
		rows = 63
	}
	v := f.viewRows(rows)
	k := verifChoose("k", 1, verifParam("K", 2))
	tg := make([]uint64, k)
	for i := range tg {
		tg[i] = verifNondetU64("target")
		if i > 0 {
			verifAssume(tg[i-1] < tg[i])
		}
		ex := false
		for x := range v.nodes {
			ex = verifIteBool(tg[i] == v.nodes[x].pos, true, ex)
		}
		verifAssume(ex)
	}
	// onPath[x]: x is a target or an ancestor of a target; isTarget[x]
	isTarget := make([]bool, len(v.nodes))
	onPath := make([]bool, len(v.nodes))
	for x := range v.nodes {
		for i := range tg {
			isTarget[x] = verifIteBool(tg[i] == v.nodes[x].pos, true, isTarget[x])
		}
	}
	// children before parents in v.nodes? place() appends parent first, then children: walk backwards
	for x := len(v.nodes) - 1; x >= 0; x-- {
		onPath[x] = verifIteBool(isTarget[x], true, onPath[x])
		if p := v.nodes[x].parent; p >= 0 {
			onPath[p] = verifIteBool(onPath[x], true, onPath[p])
		}
	}
	// precondition: no target is an ancestor of another target
	for x := range v.nodes {
		if p := v.nodes[x].parent; p >= 0 {
			// if x is on a path then no proper ancestor of x is a target
			for a := p; a >= 0; a = v.nodes[a].parent {
				verifAssume(verifIteBool(onPath[x], !isTarget[a], true))
			}
		}
	}
	own := make([]uint64, len(tg), len(tg)+2)
	copy(own, tg)
	verifOwn(own, "targets")
	r1, r2 := ProofPositions(own, uint64(n), rows)
	verifCheckOwned("C17.ProofPositions")
	for x := range v.nodes {
		in1, in2 := false, false
		for j := range r1 {
			in1 = verifIteBool(r1[j] == v.nodes[x].pos, true, in1)
		}
		for j := range r2 {
			in2 = verifIteBool(r2[j] == v.nodes[x].pos, true, in2)
		}
		want1 := false
		if s := v.nodes[x].sib; s >= 0 {
			want1 = verifIteBool(onPath[s], !onPath[x], false)
		}
		want2 := verifIteBool(onPath[x], !isTarget[x], false)
		verifAssert(in1 == want1, "C16.ProofPositions.needed")
		verifAssert(in2 == want2, "C16.ProofPositions.computable")
	}
	for j := range r1 {
		isNode := false
		for x := range v.nodes {
			isNode = verifIteBool(r1[j] == v.nodes[x].pos, true, isNode)
		}
		verifAssert(isNode, "C16.ProofPositions.needed-is-a-node")
		if j > 0 {
			verifAssert(r1[j-1] < r1[j], "C16.ProofPositions.ascending")
		}
	}
	for j := range r2 {
		isNode := false
		for x := range v.nodes {
			isNode = verifIteBool(r2[j] == v.nodes[x].pos, true, isNode)
		}
		verifAssert(isNode, "C16.ProofPositions.computable-is-a-node")
	}
	verifReach("C16.ProofPositions")
}
