//go:build verif

package utreexo

// Translator validation: the position helpers are executed on arbitrary inputs and every output is
// recorded with verifObserve*.  For each witnessed path the solver's model of the inputs is replayed
// against the native build and every observation must be identical (engine: witness replay).  There
// are no assertions here; a disagreement is an engine defect and makes the run inconclusive.

func HarnessSelftestArith() {
	p := verifNondetU64("p")
	q := verifNondetU64("q")
	n := verifNondetU64("n")
	h := verifNondetU8("h")
	k := verifNondetU8("k")
	verifAssume(h <= 63)
	verifAssume(k <= 63)
	verifObserveU64("Parent", Parent(p, h))
	verifObserveU64("LeftChild", LeftChild(p, h))
	verifObserveU64("RightChild", RightChild(p, h))
	verifObserveU64("DetectRow", uint64(DetectRow(p, h)))
	a, err := ParentMany(p, k, h)
	verifObserveU64("ParentMany", a)
	verifObserveBool("ParentMany.err", err != nil)
	c, err := ChildMany(p, k, h)
	verifObserveU64("ChildMany", c)
	verifObserveBool("ChildMany.err", err != nil)
	verifObserveU64("TreeRows", uint64(TreeRows(n)))
	verifObserveU64("numRoots", uint64(numRoots(n)))
	verifObserveU64("rootPosition", rootPosition(n, k, h))
	verifObserveU64("removeBit", removeBit(p, uint64(k)))
	verifObserveU64("addBit", addBit(p, uint64(k), q&1 == 1))
	verifObserveU64("startPositionAtRow", startPositionAtRow(k, h))
	verifObserveU64("maxPossiblePosAtRow", maxPossiblePosAtRow(k, h))
	verifObserveBool("rootExistsOnRow", rootExistsOnRow(n, k))
	verifObserveU64("getLowestRoot", uint64(getLowestRoot(n, h)))
	verifReach("selftest.arith")
}

func HarnessSelftestArith2() {
	p := verifNondetU64("p")
	q := verifNondetU64("q")
	n := verifNondetU64("n")
	h := verifNondetU8("h")
	g := verifNondetU8("g")
	verifAssume(h <= 63)
	verifAssume(g <= 63)
	verifObserveU64("translatePos", translatePos(p, h, g))
	verifObserveBool("isAncestor", isAncestor(p, q, h))
	verifObserveBool("inForest", inForest(p, n, h))
	verifObserveU64("calcPrevPosition", calcPrevPosition(p, q, h))
	x, err := calcNextPosition(p, q, h)
	verifObserveU64("calcNextPosition", x)
	verifObserveBool("calcNextPosition.err", err != nil)
	verifObserveBool("isRootPositionOnRow", isRootPositionOnRow(p, n, g))
	m, err := maxPositionAtRow(g, h, n)
	verifObserveU64("maxPositionAtRow", m)
	verifObserveBool("maxPositionAtRow.err", err != nil)
	verifReach("selftest.arith2")
}

func HarnessSelftestDetectOffset() {
	p := verifNondetU64("p")
	n := verifNondetU64("n")
	verifAssume(n < 1<<uint(verifParam("bits", 12)))
	t, b, bits, err := DetectOffset(p, n)
	verifObserveBool("DetectOffset.err", err != nil)
	if err == nil {
		verifObserveU64("DetectOffset.tree", uint64(t))
		verifObserveU64("DetectOffset.branchLen", uint64(b))
		verifObserveU64("DetectOffset.bits", bits)
	}
	verifReach("selftest.detectoffset")
}
