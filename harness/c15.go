//go:build verif

package utreexo

// C15 — the caching schedule names real leaves and never exceeds the memory limit.
// B blocks from the empty accumulator; each block deletes an ordered selection of RM's live leaves
// (targets as a prover emits them: RM positions, any order) and adds 0..A leaves; maxMemory symbolic.

func HarnessC15Schedule() {
	rm := &refForest{}
	blocks := verifParam("B", 3)
	maxN := verifParam("N", 5)
	cs := NewCachingScheduleTracker(blocks)
	var addedAt, deletedAt []int // per slot
	emptiedTree := false         // some block emptied a whole tree (reach marker: the regime of fixed finding F-C15-1 is covered)
	for k := 0; k < blocks; k++ {
		v := rm.view()
		room := maxN - len(rm.leaves)
		b := rm.refBlock(v, verifParam("D", 2), refMin(verifParam("A", 2), room))
		dels := make([]uint64, len(b.targets))
		copy(dels, b.targets)
		cs.AddBlockSummary(dels, uint16(len(b.adds)))
		for _, s := range b.delSlots {
			deletedAt[s] = k
		}
		for range b.adds {
			addedAt = append(addedAt, k)
			deletedAt = append(deletedAt, -1)
		}
		// did the deletions empty a tree that was non-empty?
		mid := &refForest{leaves: make([]refLeaf, len(rm.leaves))}
		copy(mid.leaves, rm.leaves)
		for _, s := range b.delSlots {
			mid.leaves[s].alive = false
		}
		mv := mid.view()
		for i := range mv.roots {
			if mv.roots[i] == (Hash{}) && v.roots[i] != (Hash{}) {
				emptiedTree = true
			}
		}
		rm = rm.apply(b)
		// regen=1: a schedule is also asked for after every earlier block (the tracker is used
		// incrementally); the verdict is on the final one
		if verifParam("regen", 0) == 1 && k < blocks-1 {
			cs.GenerateCachingSchedule(maxN)
		}
	}
	maxMem := verifNondetInt("maxMemory")
	verifAssume(maxMem >= 1)
	verifAssume(maxMem < 1<<16)
	sched := cs.GenerateCachingSchedule(maxMem)
	verifAssert(len(sched) == blocks, "C15.one-list-per-block")
	if len(sched) != blocks {
		return
	}
	total := len(addedAt)
	scheduled := make([]bool, total)
	for k := 0; k < blocks; k++ {
		for i, p := range sched[k] {
			ok := p < uint64(total)
			verifAssert(ok, "C15.slot-exists")
			if !ok {
				return
			}
			s := int(p)
			verifAssert(addedAt[s] == k, "C15.added-in-this-block")
			verifAssert(deletedAt[s] > k, "C15.deleted-later")
			if i > 0 {
				verifAssert(sched[k][i-1] < p, "C15.strictly-ascending")
			}
			scheduled[s] = true
		}
	}
	// memory limit: at every block, scheduled leaves that exist simultaneously
	for t := 0; t < blocks; t++ {
		cnt := 0
		for s := 0; s < total; s++ {
			if scheduled[s] && addedAt[s] <= t && deletedAt[s] > t {
				cnt++
			}
		}
		verifAssert(cnt <= maxMem, "C15.memory-limit")
	}
	// completeness when the limit is at least the number of leaves ever alive
	if maxMem >= total {
		for s := 0; s < total; s++ {
			if deletedAt[s] >= 0 {
				verifAssert(scheduled[s], "C15.complete")
			}
		}
	}
	if emptiedTree {
		verifReach("C15.history-with-emptied-tree")
	}
	verifReach("C15.schedule")
}
