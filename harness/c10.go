//go:build verif

package utreexo

// C10 — position and hash look-ups tell the truth.
// State: after an honest history, optionally after undoing the last block (undo=1) and/or after a
// Verify(remember=true) of one live leaf on the map forests (vr=1).  Queries: GetLeafPosition of a
// live leaf, a dead leaf, every internal node hash, every root hash and ONE FRESH SYMBOLIC hash;
// GetHash at ONE SYMBOLIC 64-bit position; the tracked-leaf counts.

func c10TrackedHashIs(rm *refForest, tracked []int, h Hash) bool {
	is := false
	for _, s := range tracked {
		is = verifIteBool(h == rm.leaves[s].hash, true, is)
	}
	return is
}

func c10PosOfHash(rm *refForest, v *refView, tracked []int, h Hash) uint64 {
	p := uint64(0)
	for _, s := range tracked {
		p = verifIteU64(h == rm.leaves[s].hash, v.nodes[v.leafIdx[s]].pos, p)
	}
	return p
}

type c10Lookup interface {
	GetLeafPosition(Hash) (uint64, bool)
	GetHash(uint64) Hash
}

func c10CheckLeafLookups(f c10Lookup, rm *refForest, v *refView, tracked []int, id string, kfInternal bool) {
	q := verifParam("q", 1)
	if q == 2 {
		c10CheckSymbolicHash(f, rm, v, tracked, id, kfInternal)
		return
	}
	if q != 1 {
		return
	}
	// tracked live leaves
	for _, s := range tracked {
		pos, found := f.GetLeafPosition(rm.leaves[s].hash)
		verifAssert(found, id+".live-leaf-found")
		if found {
			verifAssert(pos == v.nodes[v.leafIdx[s]].pos, id+".live-leaf-position")
		}
	}
	// dead leaves (unless their hash is re-used by a live leaf)
	for s := range rm.leaves {
		if !rm.leaves[s].alive {
			_, found := f.GetLeafPosition(rm.leaves[s].hash)
			verifAssert(found == c10TrackedHashIs(rm, tracked, rm.leaves[s].hash), id+".dead-leaf-not-found")
		}
	}
	// internal nodes and roots that are not leaves
	for x := range v.nodes {
		if v.nodes[x].slot < 0 {
			_, found := f.GetLeafPosition(v.nodes[x].hash)
			verifAssert(!found, id+".internal-hash-not-found")
		}
	}
}

func c10CheckSymbolicHash(f c10Lookup, rm *refForest, v *refView, tracked []int, id string, kfInternal bool) {
	// one fresh symbolic hash
	h := verifNondetHash("lookup")
	pos, found := f.GetLeafPosition(h)
	verifAssert(found == c10TrackedHashIs(rm, tracked, h), id+".found-iff-tracked-live-leaf")
	if found {
		verifAssert(pos == c10PosOfHash(rm, v, tracked, h), id+".symbolic-hash-position")
	}
}

// c10CheckGetHash: one symbolic position.  exact: the forest stores every node (Pollard, full map).
// Former finding F-C10-2 (repaired in /repo; the predicate is inert unless the tag is re-opened in KNOWN_FINDINGS.txt): for a position >= 2^(TreeRows+1) that is a node in NEITHER numbering the
// translation wrapped around and landed on a stored node; carve-out predicate: alt != nil (allocated for
// more rows) and p >= 2^(TreeRows+1).
func c10CheckGetHash(f c10Lookup, v *refView, alt *refView, exact bool, id string) {
	if verifParam("q", 1) != 3 {
		return
	}
	p := verifNondetU64("pos")
	got := f.GetHash(p)
	ex, want := v.hashAtSym(p)
	if alt != nil {
		// a map forest allocated for more rows than needed also answers to the position a node has in
		// the allocated numbering (the repository's own tests query it that way); the two numberings
		// share row 0 and are disjoint above it
		ex2, want2 := alt.hashAtSym(p)
		want = verifIteHash(ex, want, want2)
		ex = verifIteBool(ex, true, ex2)
	}
	kf := false
	if alt != nil {
		kf = p >= (uint64(2) << v.rows)
	}
	if exact {
		verifAssertKF(got == verifIteHash(ex, want, Hash{}), id+".GetHash", "F-C10-2", kf)
	} else {
		verifAssertKF(verifIteBool(got == (Hash{}), true, verifIteBool(ex, got == want, false)), id+".GetHash-true-or-zero", "F-C10-2", kf)
	}
}

func HarnessC10Lookups() {
	w := newWorld()
	w.history("C10.history", false)
	undone := false
	if verifParam("undo", 0) == 1 && len(w.recs) > 0 {
		w.undoLast("C10.undo")
		undone = true
	}
	if verifParam("restore", 0) == 1 {
		// look-ups on forests restored from their own serialization
		if w.p != nil {
			sw := &symWriter{failAt: -1}
			_, err := w.p.WriteTo(sw)
			verifAssume(err == nil)
			_, q, err := RestorePollardFrom(&symReader{data: sw.data, limit: len(sw.data), shortCall: -1})
			verifAssume(err == nil)
			w.p = q
		}
		if w.full != nil {
			sw := &symWriter{failAt: -1}
			_, err := w.full.Write(sw)
			verifAssume(err == nil)
			q := NewMapPollard(true)
			_, err = q.Read(&symReader{data: sw.data, limit: len(sw.data), shortCall: -1})
			verifAssume(err == nil)
			w.full = &q
		}
		if w.part != nil {
			sw := &symWriter{failAt: -1}
			_, err := w.part.Write(sw)
			verifAssume(err == nil)
			q := NewMapPollard(false)
			_, err = q.Read(&symReader{data: sw.data, limit: len(sw.data), shortCall: -1})
			verifAssume(err == nil)
			w.part = &q
		}
	}
	if verifParam("afterBlock", 0) == 1 {
		// one more honest block on the (possibly restored / undone) forests before the look-ups
		bv := w.rm.view()
		b := w.rm.refBlock(bv, 1, verifParam("A2", 2))
		w.block(b, "C10.afterBlock")
	}
	v := w.rm.view()
	live := w.rm.liveSlots()
	remembered := false
	if verifParam("vr", 0) == 1 && len(live) > 0 {
		sel := refPickCombo("vr", live, 1)
		if len(sel) > 0 {
			pr, hs, _ := c14Proof(w.rm, v, sel)
			if w.full != nil {
				verifAssume(w.full.Verify(hs, pr, true) == nil)
			}
			if w.part != nil {
				verifAssume(w.part.Verify(hs, pr, true) == nil)
				w.partHeld = c14Union(w.partHeld, sel)
			}
			remembered = true
		}
	}
	if w.p != nil {
		c10CheckLeafLookups(w.p, w.rm, v, live, "C10.pollard", false)
		c10CheckGetHash(w.p, v, nil, true, "C10.pollard")
		verifAssert(uint64(len(w.p.NodeMap)) == w.p.NumLeaves-w.p.NumDels, "C10.pollard.count-consistent")
		verifAssert(len(w.p.NodeMap) == len(live), "C10.pollard.tracked-count")
	}
	altOf := func(m *MapPollard) *refView {
		if m.TotalRows > v.rows {
			return w.rm.viewRows(m.TotalRows)
		}
		return nil
	}
	if w.full != nil {
		c10CheckLeafLookups(w.full, w.rm, v, live, "C10.mapfull", undone || remembered)
		c10CheckGetHash(w.full, v, altOf(w.full), true, "C10.mapfull")
		verifAssert(w.full.CachedLeaves.Length() == len(live), "C10.mapfull.tracked-count")
	}
	if w.part != nil {
		c10CheckLeafLookups(w.part, w.rm, v, w.partHeld, "C10.mappartial", false)
		c10CheckGetHash(w.part, v, altOf(w.part), false, "C10.mappartial")
		verifAssert(w.part.CachedLeaves.Length() == len(w.partHeld), "C10.mappartial.tracked-count")
	}
	verifReach("C10.lookups")
}
