//go:build verif

package utreexo

// C07 — a cached proof updated from block data alone stays complete and canonical.
// One-step (inductive) form: from every RM shape <= N the light client holds the canonical cached
// proof (targets ascending — the form Proof.Update itself produces) of any subset of the live
// leaves, then applies one honest block with any remember subset of the additions.
// History form: B blocks from the empty accumulator and the empty cached proof.

// refPickMask picks any subset of pool, in pool order.
func refPickMask(name string, pool []int) []int {
	var out []int
	for _, x := range pool {
		if verifChoose(name, 0, 1) == 1 {
			out = append(out, x)
		}
	}
	return out
}

type lightClient struct {
	stump  Stump
	proof  Proof
	hashes []Hash
	held   []int // slots held, kept by the harness as the specification of what must be held
}

// canonical fills the client with RM's canonical cached proof for the held slots (targets ascending).
func (c *lightClient) canonical(rm *refForest, v *refView) {
	var idx []int
	for _, s := range c.held {
		idx = append(idx, v.leafIdx[s])
	}
	for i := 1; i < len(idx); i++ {
		for j := i; j > 0 && v.nodes[idx[j]].pos < v.nodes[idx[j-1]].pos; j-- {
			idx[j], idx[j-1] = idx[j-1], idx[j]
		}
	}
	c.proof = Proof{}
	c.hashes = nil
	for _, x := range idx {
		c.proof.Targets = append(c.proof.Targets, v.nodes[x].pos)
		c.hashes = append(c.hashes, v.nodes[x].hash)
	}
	c.proof.Proof = v.proofHashes(idx)
}

// step applies one block to the client; remember = indexes into b.adds (ascending).
func (c *lightClient) step(b *refBlockT, remember []uint32, first int) bool {
	ud, err := c.stump.Update(b.hashes, b.adds, b.proof)
	verifAssert(err == nil, "C07.stump-accepts-honest-block")
	if err != nil {
		return false
	}
	hs, err := c.proof.Update(c.hashes, b.adds, b.proof.Targets, remember, ud)
	verifAssert(err == nil, "C07.Update.err")
	if err != nil {
		return false
	}
	c.hashes = hs
	// specification of the held set
	var held []int
	for _, s := range c.held {
		del := false
		for _, d := range b.delSlots {
			if d == s {
				del = true
			}
		}
		if !del {
			held = append(held, s)
		}
	}
	for _, r := range remember {
		held = append(held, first+int(r))
	}
	c.held = held
	return true
}

// check compares the client with RM at state rm.
func (c *lightClient) check(rm *refForest, v *refView, id string) {
	verifAssert(len(c.proof.Targets) == len(c.held) && len(c.hashes) == len(c.held), id+".held-count")
	if len(c.proof.Targets) != len(c.held) || len(c.hashes) != len(c.held) {
		return
	}
	// every held leaf is present, paired with its true position
	var idx []int
	for _, s := range c.held {
		x := v.leafIdx[s]
		idx = append(idx, x)
		found := false
		for i := range c.hashes {
			if c.hashes[i] == rm.leaves[s].hash {
				found = true
				verifAssert(c.proof.Targets[i] == v.nodes[x].pos, id+".position")
			}
		}
		verifAssert(found, id+".held-leaf-present")
	}
	// canonical proof hashes
	want := v.proofHashes(idx)
	verifAssert(len(c.proof.Proof) == len(want), id+".proof-len")
	if len(c.proof.Proof) == len(want) {
		for i := range want {
			verifAssert(c.proof.Proof[i] == want[i], id+".proof-hash")
		}
	}
	// and it verifies against the new state
	if len(c.held) > 0 {
		_, err := Verify(c.stump, c.hashes, c.proof)
		verifAssert(err == nil, id+".verifies")
	}
}

func c07Remember(n int) []uint32 {
	var out []uint32
	for i := 0; i < n; i++ {
		if verifChoose("remember", 0, 1) == 1 {
			out = append(out, uint32(i))
		}
	}
	return out
}

func HarnessC07Step() {
	rm := refShape(verifParam("N", 4))
	v := rm.view()
	c := &lightClient{stump: rm.stump()}
	c.held = refPickCombo("held", rm.liveSlots(), verifParam("H", 64))
	c.canonical(rm, v)
	b := rm.refBlock(v, verifParam("D", 2), verifParam("A", 2))
	rem := c07Remember(len(b.adds))
	if !c.step(b, rem, len(rm.leaves)) {
		return
	}
	after := rm.apply(b)
	c.check(after, after.view(), "C07.step")
	verifReach("C07.step")
}

func HarnessC07History() {
	rm := &refForest{}
	c := &lightClient{}
	blocks := verifParam("B", 2)
	maxN := verifParam("N", 4)
	for k := 0; k < blocks; k++ {
		v := rm.view()
		room := maxN - len(rm.leaves)
		b := rm.refBlock(v, verifParam("D", 2), refMin(verifParam("A", 2), room))
		rem := c07Remember(len(b.adds))
		if !c.step(b, rem, len(rm.leaves)) {
			return
		}
		rm = rm.apply(b)
		c.check(rm, rm.view(), "C07.history")
	}
	verifReach("C07.history")
}
