//go:build verif && !verifreplay

package utreexo

// Harness intrinsics: bodyless declarations intercepted by the symbolic engine
// (/verif/engine).  Native bodies for replay live in intrinsics_native.go.

func verifNondetU64(name string) uint64
func verifNondetU32(name string) uint32
func verifNondetU8(name string) uint8
func verifNondetInt(name string) int
func verifNondetBool(name string) bool
func verifNondetHash(name string) Hash
func verifLeafHash(name string) Hash
func verifAtom(id uint64) Hash
func verifChoose(name string, lo, hi int) int
func verifParam(name string, def int) int
func verifAssume(c bool)
func verifAssert(c bool, id string)
func verifReach(id string)
func verifObserveU64(tag string, v uint64)
func verifObserveHash(tag string, v Hash)
func verifObserveBool(tag string, v bool)
func verifIteU64(c bool, a, b uint64) uint64
func verifIteHash(c bool, a, b Hash) Hash
func verifIteBool(c bool, a, b bool) bool
func verifUnwind(n int)
func verifConcretize(x uint64) uint64
func verifOwn(s interface{}, tag string)
func verifCheckOwned(id string)
func verifTrackStart(name string)
func verifTrackStop()
func verifMapReverse(on bool)
func refParent(l, r Hash) Hash
func verifAssertKF(c bool, id string, tag string, pred bool)
func verifTrackStartObj(name string, recv interface{})
