//go:build verif

package utreexo

// C02 — every live leaf set is provable; proofs are canonical and verify everywhere.
// State: after an honest history (all implementations driven together).  Request: any ordered
// selection of up to K tracked live leaves.

func c02CheckProof(v *refView, rm *refForest, slots []int, pr Proof, id string) {
	var idx []int
	verifAssert(len(pr.Targets) == len(slots), id+".target-count")
	if len(pr.Targets) != len(slots) {
		return
	}
	for i, s := range slots {
		x := v.leafIdx[s]
		idx = append(idx, x)
		verifAssert(pr.Targets[i] == v.nodes[x].pos, id+".target-in-request-order")
	}
	want := v.proofHashes(idx)
	verifAssert(len(pr.Proof) == len(want), id+".proof-len")
	if len(pr.Proof) == len(want) {
		for i := range want {
			verifAssert(pr.Proof[i] == want[i], id+".proof-hash")
		}
	}
}

func c02Hashes(rm *refForest, slots []int) []Hash {
	out := make([]Hash, len(slots))
	for i, s := range slots {
		out[i] = rm.leaves[s].hash
	}
	return out
}

// c02Everywhere: the proof is accepted by every verifier holding the same roots; the stand-alone
// verifier reports exactly the trees that contain the targets.
func (w *world) c02Everywhere(v *refView, slots []int, hs []Hash, pr Proof, id string) {
	idxs, err := Verify(w.st, hs, pr)
	verifAssert(err == nil, id+".stump-verifies")
	if err == nil {
		// trees containing targets, smallest tree first (the order candidates are computed in)
		var want []int
		for ti := len(v.roots) - 1; ti >= 0; ti-- {
			hit := false
			for _, s := range slots {
				if v.nodes[v.leafIdx[s]].tree == ti {
					hit = true
				}
			}
			if hit {
				want = append(want, ti)
			}
		}
		verifAssert(len(idxs) == len(want), id+".root-index-count")
		if len(idxs) == len(want) {
			for i := range want {
				verifAssert(idxs[i] == want[i], id+".root-index")
			}
		}
	}
	if w.p != nil {
		verifAssert(w.p.Verify(hs, pr, false) == nil, id+".pollard-verifies")
	}
	if w.full != nil {
		verifAssert(w.full.Verify(hs, pr, false) == nil, id+".mapfull-verifies")
	}
	if w.part != nil {
		verifAssert(w.part.Verify(hs, pr, false) == nil, id+".mappartial-verifies")
	}
}

func HarnessC02Prove() {
	w := newWorld()
	w.history("C02.history", false)
	v := w.rm.view()
	k := verifParam("K", 2)
	// full provers: any ordered selection of live leaves
	which := verifParam("which", 0) // 0 both, 1 full provers only, 2 partial prover only
	var slots []int
	if which != 2 {
		slots = refPickSubset("req", w.rm.liveSlots(), k)
	}
	if len(slots) > 0 {
		hs := c02Hashes(w.rm, slots)
		var pp, pm Proof
		var err error
		if w.p != nil {
			verifOwn(hs, "prove.hashes")
			pp, err = w.p.Prove(hs)
			verifCheckOwned("C17.Pollard.Prove")
			verifAssert(err == nil, "C02.pollard.prove-ok")
			if err == nil {
				c02CheckProof(v, w.rm, slots, pp, "C02.pollard")
				w.c02Everywhere(v, slots, hs, pp, "C02.pollard-proof")
			}
		}
		if w.full != nil {
			pm, err = w.full.Prove(hs)
			verifAssert(err == nil, "C02.mapfull.prove-ok")
			if err == nil {
				c02CheckProof(v, w.rm, slots, pm, "C02.mapfull")
				w.c02Everywhere(v, slots, hs, pm, "C02.mapfull-proof")
			}
		}
	}
	// partial prover: restricted to its cached leaves
	if w.part != nil && which != 1 {
		ps := refPickSubset("preq", w.partHeld, k)
		if len(ps) > 0 {
			hs := c02Hashes(w.rm, ps)
			pr, err := w.part.Prove(hs)
			verifAssert(err == nil, "C02.mappartial.prove-ok")
			if err == nil {
				c02CheckProof(v, w.rm, ps, pr, "C02.mappartial")
				w.c02Everywhere(v, ps, hs, pr, "C02.mappartial-proof")
			}
		}
	}
	verifReach("C02.prove")
}
