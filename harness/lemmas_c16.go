//go:build verif

package utreexo

// C16 lemmas: exported position arithmetic against the closed-form geometry
// pos(r,o,h) = 2^(h+1) - 2^(h+1-r) + o.  Full width: 64-bit positions, h <= 63.
// Only exported functions are named here; lemmas on unexported helpers live in
// opt_lemmas_utils.go (dropped, and reported, if a helper is renamed).

func geoStart(r, h uint8) uint64 {
	return (uint64(2) << h) - (uint64(2) << (h - r))
}

// geoValid draws an arbitrary valid (h, r, o) triple.
func geoValid() (h, r uint8, o uint64) {
	h = verifNondetU8("h")
	r = verifNondetU8("r")
	o = verifNondetU64("o")
	verifAssume(h <= 63)
	verifAssume(r <= h)
	verifAssume(o < uint64(1)<<(h-r))
	return
}

func LemmaDetectRow() {
	h, r, o := geoValid()
	p := geoStart(r, h) + o
	verifAssert(DetectRow(p, h) == r, "C16.DetectRow")
	verifReach("C16.DetectRow")
}

func LemmaParent() {
	h, r, o := geoValid()
	verifAssume(r < h)
	p := geoStart(r, h) + o
	verifAssert(Parent(p, h) == geoStart(r+1, h)+(o>>1), "C16.Parent")
	verifReach("C16.Parent")
}

func LemmaChildren() {
	h, r, o := geoValid()
	verifAssume(r >= 1)
	p := geoStart(r, h) + o
	l := LeftChild(p, h)
	rc := RightChild(p, h)
	verifAssert(l == geoStart(r-1, h)+2*o, "C16.LeftChild")
	verifAssert(rc == geoStart(r-1, h)+2*o+1, "C16.RightChild")
	// mutual inverse
	verifAssert(Parent(l, h) == p && Parent(rc, h) == p, "C16.ParentOfChild")
	verifReach("C16.Children")
}

func LemmaParentMany() {
	h, r, o := geoValid()
	k := verifNondetU8("k")
	verifAssume(k <= h-r)
	p := geoStart(r, h) + o
	a, err := ParentMany(p, k, h)
	verifAssert(err == nil, "C16.ParentMany.err")
	verifAssert(a == geoStart(r+k, h)+(o>>k), "C16.ParentMany")
	verifReach("C16.ParentMany")
}

func LemmaChildMany() {
	h, r, o := geoValid()
	k := verifNondetU8("k")
	verifAssume(k <= r)
	p := geoStart(r, h) + o
	c, err := ChildMany(p, k, h)
	verifAssert(err == nil, "C16.ChildMany.err")
	verifAssert(c == geoStart(r-k, h)+(o<<k), "C16.ChildMany")
	// and back up again
	b, err2 := ParentMany(c, k, h)
	verifAssert(err2 == nil && b == p, "C16.ChildManyInverse")
	verifReach("C16.ChildMany")
}

// geoRows is ceil(log2 n) written without bits.Len64.
func geoRowsOK(n uint64, t uint8) bool {
	if n <= 1 {
		return t == 0
	}
	// 2^(t-1) < n <= 2^t
	return t >= 1 && t <= 64 && (t == 64 || n <= uint64(1)<<t) && n > uint64(1)<<(t-1)
}

func LemmaTreeRows() {
	n := verifNondetU64("n")
	verifAssert(geoRowsOK(n, TreeRows(n)), "C16.TreeRows")
	verifReach("C16.TreeRows")
}

// RootPositions: one root per set bit of numLeaves, highest first, each at
// pos(t, (n with bits <= t cleared) >> t).  numLeaves < 2^6 (symbolic), totalRows a parameter.
func LemmaRootPositions() {
	tr := uint8(verifParam("totalRows", 6))
	n := uint64(verifNondetU8("n") & 63)
	verifAssume(TreeRows(n) <= tr)
	got := RootPositions(n, tr)
	idx := 0
	for t := 6; t >= 0; t-- {
		if (n>>uint(t))&1 == 1 {
			verifAssert(idx < len(got), "C16.RootPositions.len")
			base := n &^ ((uint64(2) << uint(t)) - 1)
			verifAssert(got[idx] == geoStart(uint8(t), tr)+(base>>uint(t)), "C16.RootPositions.pos")
			idx++
		}
	}
	verifAssert(idx == len(got), "C16.RootPositions.count")
	verifReach("C16.RootPositions")
}

// DetectOffset: for an existing position pos(r,o,h) of an n-leaf forest (h = TreeRows(n)) the
// returned tree index is the number of trees bigger than the tree t holding the position, the
// branch length is t-r, and walking from that tree's root along the returned bits - first step
// to a child of the root, every later step to a child of the current node's sibling (nodes point
// to their nieces) - ends at the position.
func LemmaDetectOffset() {
	// height-split form: the forest height is a parameter, everything else symbolic
	h := uint8(verifParam("h", 63))
	r := verifNondetU8("r")
	if pr := verifParam("r", -1); pr >= 0 {
		r = uint8(pr) // row fixed by the configuration (large heights)
	}
	o := verifNondetU64("o")
	verifAssume(r <= h)
	verifAssume(o < uint64(1)<<(h-r))
	n := verifNondetU64("n")
	verifAssume(geoRowsOK(n, h))
	verifAssume(n >= 1)
	verifAssume((o+1)<<r <= n) // the node exists
	// t = the tree holding leaf L = o<<r: highest bit where L and n differ
	t := verifNondetU8("t")
	if pt := verifParam("t", -1); pt >= 0 {
		t = uint8(pt) // tree fixed by the configuration (large heights)
	}
	L := o << r
	verifAssume(t <= h)
	verifAssume((n>>t)&1 == 1)
	verifAssume((L>>t)&1 == 0)
	verifAssume(verifIteBool(t == 63, true, (L>>(t+1)) == (n>>(t+1))))
	p := geoStart(r, h) + o
	tree, branchLen, bits, err := DetectOffset(p, n)
	verifAssert(err == nil, "C16.DetectOffset.err")
	// number of bigger trees = popcount(n >> (t+1))
	bigger := uint8(0)
	for b := uint8(1); b <= h; b++ {
		bigger += uint8(verifIteU64(verifIteBool(b > t, (n>>b)&1 == 1, false), 1, 0))
	}
	verifAssert(tree == bigger, "C16.DetectOffset.tree")
	verifAssert(r <= t, "C16.DetectOffset.row-below-root")
	verifAssert(branchLen == t-r, "C16.DetectOffset.branchLen")
	// walk
	row := t
	off := (n &^ ((uint64(2) << t) - 1)) >> t
	for s := uint8(0); s < h; s++ {
		active := s < branchLen
		i := branchLen - 1 - s
		b := (bits >> i) & 1
		base := off
		if s > 0 {
			base = off ^ 1
		}
		row = uint8(verifIteU64(active, uint64(row-1), uint64(row)))
		off = verifIteU64(active, 2*base+b, off)
	}
	verifAssert(row == r, "C16.DetectOffset.walk-row")
	verifAssert(off == o, "C16.DetectOffset.walk-offset")
	verifReach("C16.DetectOffset")
}
