//go:build verif

package utreexo

// C16 lemmas: exported position arithmetic against the closed-form geometry
// pos(r,o,h) = 2^(h+1) - 2^(h+1-r) + o.  Full width: 64-bit positions, h <= 63.

func geoStart(r, h uint8) uint64 {
	return (uint64(2) << h) - (uint64(2) << (h - r))
}

// geoValid draws an arbitrary valid (h, r, o) triple.
func geoValid() (h, r uint8, o uint64) {
	h = verifNondetU8("h")
	r = verifNondetU8("r")
	o = verifNondetU64("o")
	verifAssume(h <= 63)
	verifAssume(r <= h)
	verifAssume(o < uint64(1)<<(h-r))
	return
}

func LemmaDetectRow() {
	h, r, o := geoValid()
	p := geoStart(r, h) + o
	verifAssert(DetectRow(p, h) == r, "C16.DetectRow")
	verifReach("C16.DetectRow")
}

func LemmaParent() {
	h, r, o := geoValid()
	verifAssume(r < h)
	p := geoStart(r, h) + o
	verifAssert(Parent(p, h) == geoStart(r+1, h)+(o>>1), "C16.Parent")
	verifReach("C16.Parent")
}
