//go:build verif

package utreexo

// C11 — update data describes exactly what the block changed.  One honest block from the stump of
// every RM shape <= N (a stump is a function of the abstract state, so one step from every shape
// covers histories of any length that stay within N leaves).

// refContainsAdded: does subtree t contain a leaf with slot >= first?
func refContainsAdded(t *refT, first int) bool {
	if t == nil {
		return false
	}
	if t.slot >= 0 {
		return t.slot >= first
	}
	return refContainsAdded(t.l, first) || refContainsAdded(t.r, first)
}

func HarnessC11UpdateData() {
	rm := refShape(verifParam("N", 5))
	v := rm.view()
	st := rm.stump()
	b := rm.refBlock(v, verifParam("D", 2), verifParam("A", 2))
	ud, err := st.Update(b.hashes, b.adds, b.proof)
	verifAssert(err == nil, "C11.accepts-honest-block")
	if err != nil {
		return
	}
	verifAssert(ud.PrevNumLeaves == v.n, "C11.PrevNumLeaves")

	// deletions: every pre-block node on a target->root path, ascending, with its post-deletion hash
	dead := rm.deadMask(b)
	_, onPath := v.proofIdx(b.tIdx)
	var wantPos []uint64
	var wantHash []Hash
	for x := range v.nodes {
		if onPath[x] {
			wantPos = append(wantPos, v.nodes[x].pos)
			wantHash = append(wantHash, rm.hashOfWithout(v.nodes[x].t, dead))
		}
	}
	for i := 1; i < len(wantPos); i++ {
		for j := i; j > 0 && wantPos[j] < wantPos[j-1]; j-- {
			wantPos[j], wantPos[j-1] = wantPos[j-1], wantPos[j]
			wantHash[j], wantHash[j-1] = wantHash[j-1], wantHash[j]
		}
	}
	verifAssert(len(ud.NewDelPos) == len(wantPos) && len(ud.NewDelHash) == len(wantPos), "C11.NewDel.len")
	if len(ud.NewDelPos) == len(wantPos) && len(ud.NewDelHash) == len(wantPos) {
		for i := range wantPos {
			verifAssert(ud.NewDelPos[i] == wantPos[i], "C11.NewDelPos")
			verifAssert(ud.NewDelHash[i] == wantHash[i], "C11.NewDelHash")
		}
	}

	// empty roots overwritten by the additions
	after := rm.apply(b)
	mid := &refForest{leaves: after.leaves[:len(rm.leaves)]}
	mv := mid.view()
	emptyRoot := make([]bool, len(mv.roots))
	for i := range mv.roots {
		emptyRoot[i] = mv.roots[i] == Hash{}
	}
	wantDestroy := refDestroyed(v.n, emptyRoot, len(b.adds))
	verifAssert(len(ud.ToDestroy) == len(wantDestroy), "C11.ToDestroy.len")
	if len(ud.ToDestroy) == len(wantDestroy) {
		for i := range wantDestroy {
			verifAssert(ud.ToDestroy[i] == wantDestroy[i], "C11.ToDestroy")
		}
	}

	// additions: every added leaf and every child of a parent created by the additions
	av := after.view()
	first := len(rm.leaves)
	var addPos []uint64
	var addHash []Hash
	loneRoot := false
	for x := range av.nodes {
		nd := av.nodes[x]
		isAdded := nd.slot >= first
		childOfNew := nd.parent >= 0 && refContainsAdded(av.nodes[nd.parent].t, first)
		if isAdded && nd.parent < 0 {
			loneRoot = true
		}
		if isAdded || childOfNew {
			addPos = append(addPos, nd.pos)
			addHash = append(addHash, nd.hash)
		}
	}
	for i := 1; i < len(addPos); i++ {
		for j := i; j > 0 && addPos[j] < addPos[j-1]; j-- {
			addPos[j], addPos[j-1] = addPos[j-1], addPos[j]
			addHash[j], addHash[j-1] = addHash[j-1], addHash[j]
		}
	}
	okLen := len(ud.NewAddPos) == len(addPos) && len(ud.NewAddHash) == len(addPos)
	verifAssert(okLen, "C11.NewAdd.len")
	_ = loneRoot
	if okLen {
		for i := range addPos {
			verifAssert(ud.NewAddPos[i] == addPos[i], "C11.NewAddPos")
			verifAssert(ud.NewAddHash[i] == addHash[i], "C11.NewAddHash")
		}
	}
	// the stump itself lands on RM's next state (C01 for the roots-only verifier)
	verifAssert(st.NumLeaves == av.n && len(st.Roots) == len(av.roots), "C11.stump.shape")
	if len(st.Roots) == len(av.roots) {
		for i := range av.roots {
			verifAssert(st.Roots[i] == av.roots[i], "C11.stump.root")
		}
	}
	verifReach("C11.UpdateData")
}

// HarnessC11Large: update data on a stump with 2^k leaves (k a parameter, up to 62): one perfect tree
// whose root and whose rightmost leaf's proof are symbolic hash terms.  Optionally the rightmost leaf
// is deleted (del=1), then A fresh leaves are added.  Expected values come from closed forms and from
// RM run on the A added leaves alone, shifted to the big forest's numbering.
func HarnessC11Large() {
	k := uint8(verifParam("k", 33))
	n := uint64(1) << k
	del := verifParam("del", 0) == 1
	// the rightmost leaf and its proof (bottom-up); root = fold
	leaf := verifLeafHash("leaf")
	proof := make([]Hash, k)
	cur := leaf
	for i := range proof {
		proof[i] = verifNondetHash("proof")
		verifAssume(proof[i] != Hash{})
		cur = refParent(proof[i], cur)
	}
	st := Stump{Roots: []Hash{cur}, NumLeaves: n}
	// fewer than 2^k additions: the added leaves form their own trees and never merge with the big one
	maxA := verifParam("A", 3)
	if k < 8 && maxA > (1<<k)-1 {
		maxA = (1 << k) - 1
	}
	na := verifChoose("adds", 0, maxA)
	small := &refForest{}
	var adds []Hash
	for i := 0; i < na; i++ {
		h := verifLeafHash("add")
		verifAssume(h != leaf)
		for j := range adds {
			verifAssume(h != adds[j])
		}
		adds = append(adds, h)
		small.leaves = append(small.leaves, refLeaf{hash: h, alive: true})
	}
	var delHashes []Hash
	var bp Proof
	if del {
		delHashes = []Hash{leaf}
		bp = Proof{Targets: []uint64{n - 1}, Proof: proof}
	}
	ud, err := st.Update(delHashes, adds, bp)
	verifAssert(err == nil, "C11.large.accepts")
	if err != nil {
		return
	}
	verifAssert(ud.PrevNumLeaves == n, "C11.large.PrevNumLeaves")
	rowsAfter := refRows(n + uint64(na))
	// deletions: the path of the rightmost leaf in the 2^k numbering
	if del {
		verifAssert(len(ud.NewDelPos) == int(k)+1 && len(ud.NewDelHash) == int(k)+1, "C11.large.NewDel.len")
		if len(ud.NewDelPos) == int(k)+1 && len(ud.NewDelHash) == int(k)+1 {
			after := Hash{}
			for r := uint8(0); r <= k; r++ {
				verifAssert(ud.NewDelPos[r] == refStart(r, k)+((n-1)>>r), "C11.large.NewDelPos")
				verifAssert(ud.NewDelHash[r] == after, "C11.large.NewDelHash")
				if r < k {
					if after == (Hash{}) {
						after = proof[r]
					} else {
						after = refParent(proof[r], after)
					}
				}
			}
		}
	} else {
		verifAssert(len(ud.NewDelPos) == 0, "C11.large.NewDel.empty")
	}
	verifAssert(len(ud.ToDestroy) == 0, "C11.large.ToDestroy.empty")
	// additions: RM on the added leaves alone, shifted behind the 2^k leaves
	sv := small.view()
	var wantPos []uint64
	var wantHash []Hash
	for x := range sv.nodes {
		nd := sv.nodes[x]
		if nd.slot >= 0 || nd.parent >= 0 {
			off := nd.pos - refStart(nd.row, sv.rows)
			wantPos = append(wantPos, refStart(nd.row, rowsAfter)+(n>>nd.row)+off)
			wantHash = append(wantHash, nd.hash)
		}
	}
	for i := 1; i < len(wantPos); i++ {
		for j := i; j > 0 && wantPos[j] < wantPos[j-1]; j-- {
			wantPos[j], wantPos[j-1] = wantPos[j-1], wantPos[j]
			wantHash[j], wantHash[j-1] = wantHash[j-1], wantHash[j]
		}
	}
	verifAssert(len(ud.NewAddPos) == len(wantPos) && len(ud.NewAddHash) == len(wantPos), "C11.large.NewAdd.len")
	if len(ud.NewAddPos) == len(wantPos) && len(ud.NewAddHash) == len(wantPos) {
		for i := range wantPos {
			verifAssert(ud.NewAddPos[i] == wantPos[i], "C11.large.NewAddPos")
			verifAssert(ud.NewAddHash[i] == wantHash[i], "C11.large.NewAddHash")
		}
	}
	verifAssert(st.NumLeaves == n+uint64(na), "C11.large.numLeaves")
	verifReach("C11.large")
}
