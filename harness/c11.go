//go:build verif

package utreexo

// C11 — update data describes exactly what the block changed.  One honest block from the stump of
// every RM shape <= N (a stump is a function of the abstract state, so one step from every shape
// covers histories of any length that stay within N leaves).

// refContainsAdded: does subtree t contain a leaf with slot >= first?
func refContainsAdded(t *refT, first int) bool {
	if t == nil {
		return false
	}
	if t.slot >= 0 {
		return t.slot >= first
	}
	return refContainsAdded(t.l, first) || refContainsAdded(t.r, first)
}

func HarnessC11UpdateData() {
	rm := refShape(verifParam("N", 5))
	v := rm.view()
	st := rm.stump()
	b := rm.refBlock(v, verifParam("D", 2), verifParam("A", 2))
	ud, err := st.Update(b.hashes, b.adds, b.proof)
	verifAssert(err == nil, "C11.accepts-honest-block")
	if err != nil {
		return
	}
	verifAssert(ud.PrevNumLeaves == v.n, "C11.PrevNumLeaves")

	// deletions: every pre-block node on a target->root path, ascending, with its post-deletion hash
	dead := rm.deadMask(b)
	_, onPath := v.proofIdx(b.tIdx)
	var wantPos []uint64
	var wantHash []Hash
	for x := range v.nodes {
		if onPath[x] {
			wantPos = append(wantPos, v.nodes[x].pos)
			wantHash = append(wantHash, rm.hashOfWithout(v.nodes[x].t, dead))
		}
	}
	for i := 1; i < len(wantPos); i++ {
		for j := i; j > 0 && wantPos[j] < wantPos[j-1]; j-- {
			wantPos[j], wantPos[j-1] = wantPos[j-1], wantPos[j]
			wantHash[j], wantHash[j-1] = wantHash[j-1], wantHash[j]
		}
	}
	verifAssert(len(ud.NewDelPos) == len(wantPos) && len(ud.NewDelHash) == len(wantPos), "C11.NewDel.len")
	if len(ud.NewDelPos) == len(wantPos) && len(ud.NewDelHash) == len(wantPos) {
		for i := range wantPos {
			verifAssert(ud.NewDelPos[i] == wantPos[i], "C11.NewDelPos")
			verifAssert(ud.NewDelHash[i] == wantHash[i], "C11.NewDelHash")
		}
	}

	// empty roots overwritten by the additions
	after := rm.apply(b)
	mid := &refForest{leaves: after.leaves[:len(rm.leaves)]}
	mv := mid.view()
	emptyRoot := make([]bool, len(mv.roots))
	for i := range mv.roots {
		emptyRoot[i] = mv.roots[i] == Hash{}
	}
	wantDestroy := refDestroyed(v.n, emptyRoot, len(b.adds))
	verifAssert(len(ud.ToDestroy) == len(wantDestroy), "C11.ToDestroy.len")
	if len(ud.ToDestroy) == len(wantDestroy) {
		for i := range wantDestroy {
			verifAssert(ud.ToDestroy[i] == wantDestroy[i], "C11.ToDestroy")
		}
	}

	// additions: every added leaf and every child of a parent created by the additions
	av := after.view()
	first := len(rm.leaves)
	var addPos []uint64
	var addHash []Hash
	loneRoot := false
	for x := range av.nodes {
		nd := av.nodes[x]
		isAdded := nd.slot >= first
		childOfNew := nd.parent >= 0 && refContainsAdded(av.nodes[nd.parent].t, first)
		if isAdded && nd.parent < 0 {
			loneRoot = true
		}
		if isAdded || childOfNew {
			addPos = append(addPos, nd.pos)
			addHash = append(addHash, nd.hash)
		}
	}
	for i := 1; i < len(addPos); i++ {
		for j := i; j > 0 && addPos[j] < addPos[j-1]; j-- {
			addPos[j], addPos[j-1] = addPos[j-1], addPos[j]
			addHash[j], addHash[j-1] = addHash[j-1], addHash[j]
		}
	}
	okLen := len(ud.NewAddPos) == len(addPos) && len(ud.NewAddHash) == len(addPos)
	verifAssert(okLen, "C11.NewAdd.len")
	_ = loneRoot
	if okLen {
		for i := range addPos {
			verifAssert(ud.NewAddPos[i] == addPos[i], "C11.NewAddPos")
			verifAssert(ud.NewAddHash[i] == addHash[i], "C11.NewAddHash")
		}
	}
	// the stump itself lands on RM's next state (C01 for the roots-only verifier)
	verifAssert(st.NumLeaves == av.n && len(st.Roots) == len(av.roots), "C11.stump.shape")
	if len(st.Roots) == len(av.roots) {
		for i := range av.roots {
			verifAssert(st.Roots[i] == av.roots[i], "C11.stump.root")
		}
	}
	verifReach("C11.UpdateData")
}
