//go:build verif

package utreexo

// C09 — a partial forest stores only true, needed hashes and can always prove its cache.
// A non-full MapPollard (fresh, or started from the bare roots of any RM shape) goes through a
// case-split sequence of operations: Modify (deletions first verified with remember, case-split
// Remember flags), Verify(remember=true) of live leaves, Ingest, Prune of cached leaves, Undo of the
// last block.  After every operation the stored node map is compared with RM:
//   (a) every stored position holds RM's hash there (empty only for an empty root);
//   (b) needed <= stored <= needed + path ancestors, needed = roots, remembered leaves and the
//       siblings on their paths (two-sided: ingest is documented to keep path intermediates);
//   (c) CachedLeaves = exactly the remembered live leaves with RM's positions;
//   (d) Prove(all cached) = RM's canonical proof.

type c09World struct {
	rm   *refForest
	m    *MapPollard
	held []int
	// last block, for undo
	lastB      *refBlockT
	lastRM     *refForest
	lastRoots  []Hash
	lastHeld   []int
	canUndo    bool
	undoneOnce bool
}

func (w *c09World) check(id string) {
	n := uint64(len(w.rm.leaves))
	if w.m.TotalRows < refRows(n) {
		verifAssert(false, id+".TotalRows-too-small")
		return
	}
	tv := w.rm.viewRows(w.m.TotalRows)
	verifAssert(w.m.NumLeaves == n, id+".numLeaves")
	// remembered leaves, needed and allowed sets
	var hidx []int
	for _, s := range w.held {
		hidx = append(hidx, tv.leafIdx[s])
	}
	needIdx, onPath := tv.proofIdx(hidx)
	needed := make([]bool, len(tv.nodes))
	for _, x := range needIdx {
		needed[x] = true
	}
	for _, x := range hidx {
		needed[x] = true
	}
	for x := range tv.nodes {
		if tv.nodes[x].parent < 0 {
			needed[x] = true
		}
	}
	stored := make([]bool, len(tv.nodes))
	for _, sn := range storedNodes(w.m) {
		k, leaf := sn.pos, sn.leaf
		x := tv.nodeAt(k)
		if x < 0 {
			// must be the slot of an empty root
			isEmptyRoot := false
			for i := range tv.rootPos {
				if tv.rootPos[i] == k && tv.roots[i] == (Hash{}) {
					isEmptyRoot = true
				}
			}
			verifAssert(isEmptyRoot, id+".a-stored-position-exists")
			verifAssert(leaf.Hash == Hash{}, id+".a-empty-root-is-empty")
			continue
		}
		stored[x] = true
		verifAssert(leaf.Hash == tv.nodes[x].hash, id+".a-stored-hash-is-true")
		verifAssert(needed[x] || onPath[x], id+".b-nothing-beyond-proof-paths")
	}
	for x := range tv.nodes {
		if needed[x] {
			verifAssert(stored[x], id+".b-needed-is-stored")
		}
	}
	// empty roots are stored too
	for i := range tv.rootPos {
		if tv.roots[i] == (Hash{}) {
			_, ok := w.m.Nodes.Get(tv.rootPos[i])
			verifAssert(ok, id+".b-empty-root-stored")
		}
	}
	// (c) cached leaves
	verifAssert(w.m.CachedLeaves.Length() == len(w.held), id+".c-cached-count")
	for _, s := range w.held {
		pos, ok := w.m.CachedLeaves.Get(w.rm.leaves[s].hash)
		verifAssert(ok, id+".c-remembered-leaf-cached")
		if ok {
			verifAssert(pos == tv.nodes[tv.leafIdx[s]].pos, id+".c-cached-position")
		}
	}
	// (d) provable with the canonical proof
	if len(w.held) > 0 {
		v := w.rm.view()
		pr, err := w.m.Prove(c02Hashes(w.rm, w.held))
		verifAssert(err == nil, id+".d-prove-ok")
		if err == nil {
			c02CheckProof(v, w.rm, w.held, pr, id+".d")
		}
	}
}

func (w *c09World) opModify(id string) {
	v := w.rm.view()
	b := w.rm.refBlock(v, verifParam("D", 1), refMin(verifParam("A", 2), verifParam("N", 4)-len(w.rm.leaves)))
	if len(b.hashes) > 0 {
		verifAssert(w.m.Verify(b.hashes, b.proof, true) == nil, id+".verify-remember")
	}
	w.lastB, w.lastRM, w.lastRoots = b, w.rm, refCopyHashes(v.roots)
	w.lastHeld = c14Union(w.held, b.delSlots)
	leaves := c01RememberLeaves(b.adds)
	verifAssert(w.m.Modify(leaves, b.hashes, b.proof) == nil, id+".modify")
	var held []int
	for _, s := range w.held {
		del := false
		for _, d := range b.delSlots {
			if d == s {
				del = true
			}
		}
		if !del {
			held = append(held, s)
		}
	}
	for i := range leaves {
		if leaves[i].Remember {
			held = append(held, len(w.rm.leaves)+i)
		}
	}
	w.held = held
	w.rm = w.rm.apply(b)
	w.canUndo = true
}

func (w *c09World) opRemember(ingest bool, id string) {
	v := w.rm.view()
	sel := refPickCombo("sel", w.rm.liveSlots(), verifParam("K", 2))
	if len(sel) == 0 {
		return
	}
	pr, hs, _ := c14Proof(w.rm, v, sel)
	if ingest {
		verifAssert(w.m.Ingest(hs, pr) == nil, id+".ingest")
	} else {
		verifAssert(w.m.Verify(hs, pr, true) == nil, id+".verify-remember")
	}
	w.held = c14Union(w.held, sel)
}

func (w *c09World) opPrune(id string) {
	sel := refPickCombo("prune", w.held, verifParam("K", 2))
	if len(sel) == 0 {
		return
	}
	verifAssert(w.m.Prune(c02Hashes(w.rm, sel)) == nil, id+".prune")
	var held []int
	for _, s := range w.held {
		pr := false
		for _, x := range sel {
			if x == s {
				pr = true
			}
		}
		if !pr {
			held = append(held, s)
		}
	}
	w.held = held
}

func (w *c09World) opUndo(id string) {
	if !w.canUndo {
		return
	}
	b := w.lastB
	verifAssert(w.m.Undo(uint64(len(b.adds)), b.proof, b.hashes, w.lastRoots) == nil, id+".undo")
	first := len(w.lastRM.leaves)
	// remembered now: what is still remembered among the leaves that existed before the block, plus
	// the block's deleted leaves (they were verified with remember before the block)
	var held []int
	for _, s := range w.held {
		if s < first {
			held = append(held, s)
		}
	}
	w.held = c14Union(held, b.delSlots)
	w.rm = w.lastRM
	w.canUndo = false
}

func HarnessC09Ops() {
	w := &c09World{}
	if verifParam("fromRoots", 0) == 1 {
		w.rm = refShape(verifParam("N0", 3))
		v := w.rm.view()
		m := NewMapPollardFromRoots(refCopyHashes(v.roots), v.n, false)
		w.m = &m
	} else {
		w.rm = &refForest{}
		w.m = newMapPollardRows(false, verifParam("T0", 63))
		// a first block so that there is something to work with
		w.opModify("C09.first")
		w.canUndo = verifParam("undoFirst", 0) == 1
	}
	w.check("C09.start")
	ops := verifParam("L", 2)
	mask := verifParam("ops", 31) // bit i enables op i: 0 Modify, 1 Verify-remember, 2 Ingest, 3 Prune, 4 Undo
	for k := 0; k < ops; k++ {
		var enabled []int
		for i := 0; i < 5; i++ {
			if (mask>>uint(i))&1 == 1 {
				enabled = append(enabled, i)
			}
		}
		op := enabled[verifChoose("op", 0, len(enabled)-1)]
		switch op {
		case 0:
			w.opModify("C09.modify")
		case 1:
			w.opRemember(false, "C09.remember")
		case 2:
			w.opRemember(true, "C09.ingest")
		case 3:
			w.opPrune("C09.prune")
		case 4:
			w.opUndo("C09.undo")
		}
		w.check("C09.after-op")
	}
	verifReach("C09.ops")
}
