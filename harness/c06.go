//go:build verif

package utreexo

// C06 — undo is the exact inverse of a block, to any reorganisation depth.
// History of B honest blocks through every forest; undo the last d blocks newest first with each
// block's own data and the previous roots; after every undo each forest must be observationally
// equal to RM at that earlier state; then one more (different) block is applied and re-checked.

// c06Observe compares one forest with RM: roots, leaf count, position of every tracked leaf and
// the proof of a selection of tracked leaves.
func c06ObservePollard(p *Pollard, rm *refForest, v *refView, req []int, id string) {
	c01CheckRoots(p.GetRoots(), p.GetNumLeaves(), v, id)
	for _, s := range rm.liveSlots() {
		pos, found := p.GetLeafPosition(rm.leaves[s].hash)
		verifAssert(found, id+".leaf-tracked")
		if found {
			verifAssert(pos == v.nodes[v.leafIdx[s]].pos, id+".leaf-position")
		}
	}
	if len(req) > 0 {
		pr, err := p.Prove(c02Hashes(rm, req))
		verifAssert(err == nil, id+".prove-ok")
		if err == nil {
			c02CheckProof(v, rm, req, pr, id)
		}
	}
}

func c06ObserveMap(m *MapPollard, tracked []int, rm *refForest, v *refView, req []int, id string) {
	c01CheckRoots(m.GetRoots(), m.GetNumLeaves(), v, id)
	for _, s := range tracked {
		pos, found := m.GetLeafPosition(rm.leaves[s].hash)
		verifAssert(found, id+".leaf-tracked")
		if found {
			verifAssert(pos == v.nodes[v.leafIdx[s]].pos, id+".leaf-position")
		}
	}
	if len(req) > 0 {
		pr, err := m.Prove(c02Hashes(rm, req))
		verifAssert(err == nil, id+".prove-ok")
		if err == nil {
			c02CheckProof(v, rm, req, pr, id)
		}
	}
	// same provable set: a live leaf that is not tracked must not be reported
	for _, s := range rm.liveSlots() {
		isTracked := false
		for _, t := range tracked {
			if t == s {
				isTracked = true
			}
		}
		if !isTracked {
			_, found := m.GetLeafPosition(rm.leaves[s].hash)
			verifAssertKF(!found, id+".no-extra-tracked-leaf", "F-C06-1", true)
		}
	}
}

func c06Union(a, b []int) []int { return c14Union(a, b) }

func HarnessC06Undo() {
	w := newWorld()
	w.history("C06.history", false)
	blocks := len(w.recs)
	d := verifChoose("undoDepth", 1, refMin(blocks, verifParam("U", 2)))
	for k := blocks - 1; k >= blocks-d; k-- {
		r := w.recs[k]
		na := uint64(len(r.b.adds))
		verifOwn(r.b.proof.Targets, "undo.targets")
		verifOwn(r.b.proof.Proof, "undo.proof")
		verifOwn(r.b.hashes, "undo.hashes")
		verifOwn(r.prevRoots, "undo.prevRoots")
		live := r.rm.liveSlots()
		if w.p != nil {
			err := w.p.Undo(na, r.b.proof, r.b.hashes, r.prevRoots)
			verifAssert(err == nil, "C06.pollard.undo-ok")
			if err == nil {
				c06ObservePollard(w.p, r.rm, r.v, refPickCombo("req", live, verifParam("K", 2)), "C06.pollard")
			}
		}
		if w.full != nil {
			err := w.full.Undo(na, w.fullProof(r.b.proof), r.b.hashes, r.prevRoots)
			verifAssert(err == nil, "C06.mapfull.undo-ok")
			if err == nil {
				c06ObserveMap(w.full, live, r.rm, r.v, refPickCombo("reqf", live, verifParam("K", 2)), "C06.mapfull")
			}
		}
		if w.part != nil {
			err := w.part.Undo(na, r.b.proof, r.b.hashes, r.prevRoots)
			verifAssert(err == nil, "C06.mappartial.undo-ok")
			held := c06Union(r.prevHeld, r.b.delSlots)
			// Verify(remember=true) ahead of a later block is not part of that block: what it made the
			// forest track stays tracked when the blocks are undone, as long as the leaf exists
			var stillHeld []int
			for _, s := range w.partHeld {
				if s < len(r.rm.leaves) && r.rm.leaves[s].alive {
					stillHeld = append(stillHeld, s)
				}
			}
			held = c06Union(held, stillHeld)
			if err == nil {
				c06ObserveMap(w.part, held, r.rm, r.v, refPickCombo("reqp", held, verifParam("K", 2)), "C06.mappartial")
			}
			w.partHeld = held
		}
		verifCheckOwned("C17.Undo")
		w.rm = r.rm
		w.st = Stump{Roots: refCopyHashes(r.v.roots), NumLeaves: r.v.n}
	}
	w.recs = w.recs[:blocks-d]
	// re-apply a (possibly different) block from here
	if verifParam("redo", 1) == 1 {
		v := w.rm.view()
		b := w.rm.refBlock(v, verifParam("D", 2), refMin(verifParam("A", 2), verifParam("N", 4)+1-len(w.rm.leaves)))
		w.block(b, "C06.redo")
		w.checkRoots("C06.redo")
		nv := w.rm.view()
		live := w.rm.liveSlots()
		if w.p != nil {
			c06ObservePollard(w.p, w.rm, nv, live, "C06.redo.pollard")
		}
		if w.full != nil {
			c06ObserveMap(w.full, live, w.rm, nv, live, "C06.redo.mapfull")
		}
		if w.part != nil {
			c06ObserveMap(w.part, w.partHeld, w.rm, nv, w.partHeld, "C06.redo.mappartial")
		}
	}
	verifReach("C06.undo")
}
