//go:build verif

package utreexo

// C12 — the map forest is race-free and every query sees a whole-block state.
// Step 1 (this harness): each exported MapPollard method is executed symbolically on a small
// reachable instance between verifTrackStartObj/verifTrackStop.  The engine's RWMutex model keeps the
// lock state and logs every lock operation and every load/store of a guarded location (everything
// reachable from the receiver except the mutex itself and the never-written Full flag) together with
// the lock state at that moment.  Per path: no acquisition while held, lock released at return.
// Step 2 (engine): for every ordered pair of methods the logged access summaries go into an SMT
// problem over integer timestamps (program order, RWMutex exclusion) asking for a data race or for
// a guarded read between two guarded writes of one writer call.

import "io"

const c12NumMethods = 20

// c12Hammer is set by the optional file opt_c12hammer.go (it names the unexported mutex field).
var c12Hammer func(m *MapPollard)
var c12LockLoop func(m *MapPollard, stop func() bool, acquired func())

func c12Name(i int) string {
	switch i {
	case 0:
		return "Modify"
	case 1:
		return "Undo"
	case 2:
		return "Verify(remember)"
	case 3:
		return "VerifyPartialProof(remember)"
	case 4:
		return "Ingest"
	case 5:
		return "Prune"
	case 6:
		return "Read"
	case 7:
		return "Prove"
	case 8:
		return "Verify"
	case 9:
		return "GetMissingPositions"
	case 10:
		return "GetRoots"
	case 11:
		return "GetHash"
	case 12:
		return "GetLeafPosition"
	case 13:
		return "GetNumLeaves"
	case 14:
		return "GetTreeRows"
	case 15:
		return "GetStump"
	case 16:
		return "GetLeafHashPositions"
	case 17:
		return "Write"
	case 18:
		return "String"
	case 19:
		return "AllSubTreesToString"
	}
	return "?"
}

// c12Args: arguments prepared before tracking starts.
type c12Args struct {
	b         *refBlockT
	hashes    []Hash
	proof     Proof
	leaves    []Leaf
	prevRoots []Hash
	undoB     *refBlockT
	selHashes []Hash
	selProof  Proof
	held      []Hash
	stream    []byte
	pos       uint64
	lhp       []Hash
}

func c12Call(m *MapPollard, method int, a *c12Args) {
	switch method {
	case -1:
		// native replay partner for lock-discipline findings: a writer that keeps asking for the lock
		if c12Hammer != nil {
			c12Hammer(m)
		}
	case 0:
		m.Modify(a.leaves, a.hashes, a.proof)
	case 1:
		if a.undoB != nil {
			m.Undo(uint64(len(a.undoB.adds)), a.undoB.proof, a.undoB.hashes, a.prevRoots)
		}
	case 2:
		m.Verify(a.selHashes, a.selProof, true)
	case 3:
		m.VerifyPartialProof(a.selProof.Targets, a.selHashes, a.selProof.Proof, true)
	case 4:
		m.Ingest(a.selHashes, a.selProof)
	case 5:
		m.Prune(a.held)
	case 6:
		m.Read(&symReader{data: a.stream, limit: len(a.stream), shortCall: -1})
	case 7:
		m.Prove(a.held)
	case 8:
		m.Verify(a.selHashes, a.selProof, false)
	case 9:
		m.GetMissingPositions(a.selProof.Targets)
	case 10:
		m.GetRoots()
	case 11:
		m.GetHash(a.pos)
	case 12:
		if len(a.selHashes) > 0 {
			m.GetLeafPosition(a.selHashes[0])
		}
	case 13:
		m.GetNumLeaves()
	case 14:
		m.GetTreeRows()
	case 15:
		m.GetStump()
	case 16:
		m.GetLeafHashPositions(a.lhp)
	case 17:
		m.Write(&symWriter{failAt: -1})
	case 18:
		_ = m.String()
	case 19:
		_ = m.AllSubTreesToString()
	}
}

var _ io.Reader = (*symReader)(nil)

// c12Setup builds a small forest through the real API and the arguments for every method.
func c12Setup() (*MapPollard, *c12Args) {
	w := newWorld()
	w.history("C12.history", false)
	var m *MapPollard
	var tracked []int
	if w.full != nil {
		m, tracked = w.full, w.rm.liveSlots()
	} else {
		m, tracked = w.part, w.partHeld
	}
	v := w.rm.view()
	a := &c12Args{}
	a.b = w.rm.refBlock(v, 1, 1)
	a.hashes, a.proof = a.b.hashes, a.b.proof
	a.leaves = c01Leaves(a.b.adds, true)
	if len(w.recs) > 0 {
		r := w.recs[len(w.recs)-1]
		a.undoB, a.prevRoots = r.b, r.prevRoots
	}
	// exactly one selected live leaf whenever there is one (so that writers really write)
	var sel []int
	if live := w.rm.liveSlots(); len(live) > 0 {
		sel = []int{live[verifChoose("sel", 0, len(live)-1)]}
	}
	a.selProof, a.selHashes, _ = c14Proof(w.rm, v, sel)
	a.held = c02Hashes(w.rm, tracked)
	sw := &symWriter{failAt: -1}
	m.Write(sw)
	a.stream = sw.data
	a.pos = verifNondetU64("pos")
	// GetLeafHashPositions gets the selected hash several times (native replay raises lhpN so that a
	// waiting writer can arrive between two iterations)
	for i := 0; i < verifParam("lhpN", 2) && len(a.selHashes) > 0; i++ {
		a.lhp = append(a.lhp, a.selHashes[0])
	}
	return m, a
}

func HarnessC12Method() {
	method := verifParam("method", 0)
	m, a := c12Setup()
	verifTrackStartObj(c12Name(method), m)
	c12Call(m, method, a)
	verifTrackStop()
	verifReach("C12." + c12Name(method))
}
