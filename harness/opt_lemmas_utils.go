//go:build verif

package utreexo

// Lemmas on unexported position helpers (shared by Stump, Pollard and MapPollard).
// Optional overlay file: if a helper is renamed the file is dropped and the
// omission is reported in the evidence.

func LemmaStartPositionAtRow() {
	h, r, _ := geoValid()
	verifAssert(startPositionAtRow(r, h) == geoStart(r, h), "C16.startPositionAtRow")
	verifReach("C16.startPositionAtRow")
}

// rootPosition(n, t, h) for a set bit t of n and any h with n <= 2^h.
func LemmaRootPosition() {
	h := verifNondetU8("h")
	t := verifNondetU8("t")
	n := verifNondetU64("n")
	verifAssume(h <= 63 && t <= h)
	verifAssume(n <= uint64(1)<<h)
	verifAssume((n>>t)&1 == 1)
	base := n &^ ((uint64(2) << t) - 1)
	verifAssert(rootPosition(n, t, h) == geoStart(t, h)+(base>>t), "C16.rootPosition")
	verifReach("C16.rootPosition")
}

func LemmaTranslatePos() {
	h1, r, o := geoValid()
	h2 := verifNondetU8("h2")
	verifAssume(h2 <= 63 && r <= h2)
	verifAssume(o < uint64(1)<<(h2-r))
	p := geoStart(r, h1) + o
	verifAssert(translatePos(p, h1, h2) == geoStart(r, h2)+o, "C16.translatePos")
	verifReach("C16.translatePos")
}

func LemmaIsAncestor() {
	h := uint8(verifParam("h", 63))
	r1 := verifNondetU8("r1")
	r2 := verifNondetU8("r2")
	o1 := verifNondetU64("o1")
	o2 := verifNondetU64("o2")
	verifAssume(r1 <= h && r2 <= h)
	verifAssume(o1 < uint64(1)<<(h-r1))
	verifAssume(o2 < uint64(1)<<(h-r2))
	lo := geoStart(r1, h) + o1
	hi := geoStart(r2, h) + o2
	want := r2 > r1 && (o1>>(r2-r1)) == o2
	verifAssert(isAncestor(hi, lo, h) == want, "C16.isAncestor")
	verifReach("C16.isAncestor")
}

// inForest: a valid position exists iff its whole leaf range lies below numLeaves.
func LemmaInForest() {
	h, r, o := geoValid()
	n := verifNondetU64("n")
	verifAssume(n <= uint64(1)<<h)
	p := geoStart(r, h) + o
	want := (o+1)<<r <= n
	verifAssert(inForest(p, n, h) == want, "C16.inForest")
	verifReach("C16.inForest")
}

func LemmaRemoveAddBit() {
	v := verifNondetU64("v")
	b := verifNondetU8("b")
	verifAssume(b <= 62)
	bit := uint64(b)
	lowMask := (uint64(1) << bit) - 1
	want := ((v >> (bit + 1)) << bit) | (v & lowMask)
	verifAssert(removeBit(v, bit) == want, "C01.removeBit")
	x := verifNondetBool("x")
	verifAssume(v < uint64(1)<<63)
	verifAssert(removeBit(addBit(v, bit, x), bit) == v, "C01.addBitInverse")
	verifAssert((addBit(v, bit, x)>>bit)&1 == verifIteU64(x, 1, 0), "C01.addBitValue")
	verifReach("C01.removeAddBit")
}

// calcNextPosition: when del = pos(rd,od) is deleted, a node pos(rp,op) inside the subtree of
// sibling(del) moves one row up keeping its path relative to the sibling subtree, whose root
// takes the place of parent(del).  calcPrevPosition is its inverse.  Height is a parameter
// (height-split form of the lemma).
func LemmaCalcNextPosition() {
	h := uint8(verifParam("h", 63))
	rd := verifNondetU8("rd")
	rp := verifNondetU8("rp")
	od := verifNondetU64("od")
	op := verifNondetU64("op")
	verifAssume(rd < h && rp <= rd)
	verifAssume(od < uint64(1)<<(h-rd))
	verifAssume(op < uint64(1)<<(h-rp))
	d := rd - rp
	verifAssume(op>>d == od^1)
	del := geoStart(rd, h) + od
	pos := geoStart(rp, h) + op
	got, err := calcNextPosition(pos, del, h)
	verifAssert(err == nil, "C01.calcNextPosition.err")
	rel := op & ((uint64(1) << d) - 1)
	want := geoStart(rp+1, h) + (((od >> 1) << d) | rel)
	verifAssert(got == want, "C01.calcNextPosition")
	verifAssert(calcPrevPosition(got, del, h) == pos, "C01.calcPrevPosition")
	verifReach("C01.calcNextPosition")
}

func LemmaMaxPossiblePosAtRow() {
	h, r, _ := geoValid()
	// last position of row r is start(r) + 2^(h-r) - 1
	verifAssert(maxPossiblePosAtRow(r, h) == geoStart(r, h)+(uint64(1)<<(h-r))-1, "C16.maxPossiblePosAtRow")
	verifReach("C16.maxPossiblePosAtRow")
}
