#!/usr/bin/env python3
"""usage: setcheck.py <file.json>  — merges the given per-property config into checks.json"""
import json, sys, os
root = os.path.dirname(os.path.dirname(os.path.abspath(__file__)))
c = json.load(open(os.path.join(root, 'checks.json')))
new = json.load(open(sys.argv[1]))
for k, v in new.items():
    c[k] = v
json.dump(c, open(os.path.join(root, 'checks.json'), 'w'), indent=1)
