#!/usr/bin/env python3
"""Re-derives 'needs_to_manifest' of a seed from its notes.md when the stored text is empty or a bare heading."""
import json, glob, os, re
root = os.path.dirname(os.path.dirname(os.path.abspath(__file__)))
for mp in sorted(glob.glob(os.path.join(root, 'seeded', '*', 'meta.json'))):
    m = json.load(open(mp))
    cur = (m.get('needs_to_manifest') or '').strip()
    if cur and not cur.startswith('#') and len(cur) > 25:
        continue
    np_ = os.path.join(os.path.dirname(mp), 'notes.md')
    if not os.path.exists(np_):
        continue
    lines = open(np_).read().split('\n')
    out = ''
    for i, l in enumerate(lines):
        if re.search(r'(needs|trigger|manifest)', l, re.I):
            if l.lstrip().startswith('#') or len(l.strip()) < 40:
                body = [x.strip(' -*') for x in lines[i + 1:i + 8] if x.strip() and not x.lstrip().startswith('#')]
                out = ' '.join(body)[:300]
            else:
                out = l.strip(' -*')[:300]
            if out:
                break
    if out:
        m['needs_to_manifest'] = out
        json.dump(m, open(mp, 'w'), indent=1)
        print('fixed', m['name'])
