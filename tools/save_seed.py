#!/usr/bin/env python3
"""usage: save_seed.py <name> <property> <patch> <demo> <notes.md|-> <confirm-line> [needs text]"""
import sys, os, json, shutil
name, prop, patch, demo, notes, confirm = sys.argv[1:7]
needs = sys.argv[7] if len(sys.argv) > 7 else ""
d = os.path.join('/verif/seeded', name)
os.makedirs(d, exist_ok=True)
shutil.copy(patch, os.path.join(d, 'patch.diff'))
shutil.copy(demo, os.path.join(d, 'demo_test.go'))
if notes != '-' and os.path.exists(notes):
    shutil.copy(notes, os.path.join(d, 'notes.md'))
meta = {"property": prop, "name": name, "source": "independent sub-agent given only the property text and a scratch worktree",
        "needs_to_manifest": needs, "confirmed_by_me": confirm,
        "how_confirmed": "tools/confirm_seed.sh in a scratch worktree of /repo HEAD: patch applies+builds, unedited suite passes with it, demo fails with it and passes without it",
        "detected_by": None}
mp = os.path.join(d, 'meta.json')
if os.path.exists(mp):
    old = json.load(open(mp)); meta['detected_by'] = old.get('detected_by')
json.dump(meta, open(mp, 'w'), indent=1)
