#!/bin/bash
# usage: process_seed.sh <name> <property> <seeddir> [extra property ...]
# confirms the seed in a scratch worktree, saves it under /verif/seeded/<name>, runs the property's quick
# check (and the extra properties' checks) against it and records the outcome in meta.json.
name=$1; prop=$2; dir=$3; shift 3; extras="$@"
cd /verif
pat=$(grep -ohE "func Test[A-Za-z0-9_]+" $dir/demo_test.go | sed 's/func //' | paste -sd'|')
conf=$(tools/confirm_seed.sh $name $dir/patch.diff $dir/demo_test.go "^($pat)\$" 2>&1 | tail -1)
echo "$conf"
case "$conf" in *"suite=pass demo_with_patch=fail(good) demo_without=pass(good)"*) ;; *) echo "NOT-CONFIRMED $name"; exit 1;; esac
needs=$(grep -iE -m1 "needs|trigger" $dir/notes.md | cut -c1-300)
python3 tools/save_seed.py $name $prop $dir/patch.diff $dir/demo_test.go $dir/notes.md "$conf" "$needs"
det=""
for p in $prop $extras; do
  out=$(tools/try_seed.sh $dir/patch.diff $p 2>&1)
  rc=$(echo "$out" | grep -oE "^exit=[0-9]+" | tail -1)
  first=$(echo "$out" | grep -E "^violation detail" | head -1 | cut -c1-160)
  echo "  $p $rc $first"
  det="$det$p quick: $rc ${first}; "
done
python3 - "$name" "$det" <<'PY'
import json,sys
p='/verif/seeded/%s/meta.json'%sys.argv[1]; m=json.load(open(p)); m['detected_by']=sys.argv[2]; json.dump(m,open(p,'w'),indent=1)
PY
