#!/bin/bash
# stops any running engine processes and their solvers (development helper)
for p in $(pgrep -x ssa2smt) $(pgrep -x z3) $(pgrep -x z3-new) $(pgrep -x cvc5); do kill $p 2>/dev/null; done
exit 0
