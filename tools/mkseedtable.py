#!/usr/bin/env python3
"""Rewrites the seed table in DESIGN.md (between the SEEDTABLE markers) from seeded/*/meta.json."""
import json, glob, os, re
root = os.path.dirname(os.path.dirname(os.path.abspath(__file__)))
rows = []
for mp in sorted(glob.glob(os.path.join(root, 'seeded', '*', 'meta.json'))):
    m = json.load(open(mp))
    needs = (m.get('needs_to_manifest') or '').replace('|', '/').replace('\n', ' ')
    needs = re.sub(r'^[-*\s]*\**(Trigger|What it needs|Needs)[^:]*:\**\s*', '', needs)[:170]
    det = (m.get('detected_by') or 'not yet run').replace('|', '/').replace('\n', ' ')[:230]
    rows.append("| %s | %s | %s | %s |" % (m['name'], m['property'], needs, det))
table = "| seed | property | what it needs to manifest | outcome of the checks |\n|---|---|---|---|\n" + "\n".join(rows) + "\n"
p = os.path.join(root, 'DESIGN.md')
s = open(p).read()
a, b = s.index('<!-- SEEDTABLE -->'), s.index('<!-- /SEEDTABLE -->')
s = s[:a] + '<!-- SEEDTABLE -->\n' + table + s[b:]
open(p, 'w').write(s)
print(len(rows), 'seeds')
