#!/bin/bash
# usage: confirm_seed.sh <name> <patch.diff> <demo_test.go>
# In a scratch worktree of /repo HEAD: (1) patch applies and builds, (2) full suite passes with the patch,
# (3) demo fails with the patch, (4) demo passes without it.  Prints a one-line verdict; removes the worktree.
name=$1; patch=$2; demo=$3; pat=${4:-Demo}
wt=/tmp/confirm-$name
export GOFLAGS=-mod=mod GOPROXY=off GOSUMDB=off
git -C /repo worktree add -q --detach $wt HEAD || exit 9
cd $wt
res="name=$name"
if git apply "$patch" 2>/dev/null; then res="$res applies=yes"; else res="$res applies=NO"; echo "$res"; cd /; git -C /repo worktree remove --force $wt; exit 1; fi
if go build ./... 2>/dev/null; then res="$res builds=yes"; else res="$res builds=NO"; fi
suite=$(go test -vet=off -count=1 -timeout 25m ./... 2>&1 | tail -1)
case "$suite" in ok*) res="$res suite=pass";; *) res="$res suite=FAIL";; esac
cp "$demo" zz_demo_test.go
d1=$(timeout 300 go test -vet=off -count=1 -timeout 4m -run "$pat" . 2>&1 | tail -1)
case "$d1" in ok*) res="$res demo_with_patch=PASS(bad)";; *) res="$res demo_with_patch=fail(good)";; esac
git checkout -q -- . 
d2=$(timeout 300 go test -vet=off -count=1 -timeout 4m -run "$pat" . 2>&1 | tail -1)
case "$d2" in ok*) res="$res demo_without=pass(good)";; *) res="$res demo_without=FAIL(bad)";; esac
echo "$res"
cd /; git -C /repo worktree remove --force $wt
