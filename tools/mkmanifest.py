#!/usr/bin/env python3
"""Regenerates /verif/MANIFEST.json from checks.json + manifest_texts.json.
A property is claimed iff it has an entry in manifest_texts.json["claimed"]."""
import json, os
root = os.path.dirname(os.path.dirname(os.path.abspath(__file__)))
props = [json.loads(l) for l in open(os.path.join(root, 'properties.jsonl'))]
texts = json.load(open(os.path.join(root, 'manifest_texts.json')))
checks = []
na = []
for p in props:
    pid = p['id']
    t = texts['claimed'].get(pid)
    if t is None:
        na.append({"property_id": pid, "reason": texts['not_applicable'].get(pid, "solver-based check not built yet; no other technique is substituted")})
        continue
    checks.append({
        "property_id": pid,
        "quick_cmd": "./bin/ssa2smt check --property %s --tier quick" % pid,
        "thorough_cmd": "./bin/ssa2smt check --property %s --tier thorough" % pid,
        "evidence_file": "/verif/evidence/%s.json" % pid,
        "replay_cmd_template": "./bin/ssa2smt replay {path}",
        "engine": "ssa2smt",
        "level_claimed": {"category": "model_checking", "text": t['text'], "design_ref": t.get('design_ref', 'DESIGN.md section 6 ' + pid)},
        "level_note": t['note'],
        "technique": t.get('technique', "bounded symbolic execution of the real go/ssa code into SMT-LIB2 (bit-vectors + free hash algebra), z3 decides every assertion/panic/unwinding query; models replayed natively"),
    })
m = {
    "version": 1,
    "setup_cmd": "cd /verif/engine && GOFLAGS=-mod=mod GOPROXY=off GOSUMDB=off GOTOOLCHAIN=local go build -o /verif/bin/ssa2smt .",
    "hooks": {"guard": "verif", "enable": texts['hooks_enable'], "baseline_off_cmd": "cd /repo && go test -vet=off -count=1 -timeout 25m ./...", "source_commits": texts.get('hook_commits', []), "add_only": True},
    "engines": [{"name": "ssa2smt", "path": "/verif/engine", "serves_properties": [c['property_id'] for c in checks],
                 "kind_free_text": "own go/ssa -> SMT-LIB2 path-based symbolic executor (bit-vectors, free hash datatype); z3 4.8.12 incremental, cross-checked with z3 5.1.0 / cvc5; solver models replayed against the native build"}],
    "checks": checks,
    "notes": texts.get('notes', ''),
    "not_applicable": na,
}
json.dump(m, open(os.path.join(root, 'MANIFEST.json'), 'w'), indent=1)
print("claimed:", [c['property_id'] for c in checks])
