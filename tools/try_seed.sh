#!/bin/bash
# usage: try_seed.sh <patch.diff> <property> [tier]
# Applies the patch in a scratch worktree of /repo HEAD (never in /repo itself), runs the check against
# that worktree with evidence/out redirected to a scratch dir, prints the verdict lines, removes both.
set -u
patch=$1; prop=$2; tier=${3:-quick}
id=$$
wt=/tmp/try-wt-$id; sc=/tmp/try-sc-$id
git -C /repo worktree add -q --detach $wt HEAD || exit 9
if ! git -C $wt apply "$patch" 2>/dev/null; then echo "PATCH-DOES-NOT-APPLY $patch"; git -C /repo worktree remove --force $wt; exit 8; fi
mkdir -p $sc
cd /verif && VERIF_REPO=$wt VERIF_SCRATCH=$sc timeout 3600 ./bin/ssa2smt check --property "$prop" --tier "$tier" 2>&1 | grep -E "^(VIOLATION|KNOWN-FINDING|INCONCLUSIVE|property=|violation detail)" | cut -c1-260 | awk '!seen[substr($0,1,60)]++' | head -12
rc=${PIPESTATUS[0]}
git -C /repo worktree remove --force $wt; rm -rf $sc
echo "exit=$rc"
