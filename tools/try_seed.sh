#!/bin/bash
# usage: try_seed.sh <patch.diff> <property> [tier]   — applies the patch to /repo, runs the check, reverts.
set -u
patch=$1; prop=$2; tier=${3:-quick}
cd /repo || exit 9
if ! git apply --check "$patch" 2>/dev/null; then echo "PATCH-DOES-NOT-APPLY $patch"; exit 8; fi
git apply "$patch"
cd /verif && timeout 3600 ./bin/ssa2smt check --property "$prop" --tier "$tier" 2>&1 | grep -E "^(VIOLATION|KNOWN-FINDING|INCONCLUSIVE|property=|violation detail)" | cut -c1-300
rc=${PIPESTATUS[0]}
git -C /repo checkout -- . 
echo "exit=$rc  repo-clean=$(git -C /repo status --short | wc -l)"
