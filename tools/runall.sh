#!/bin/bash
# runs every claimed check (quick by default) on /repo and validates every evidence file
tier=${1:-quick}
cd /verif
props=${2:-$(python3 -c "import json;print(' '.join(c['property_id'] for c in json.load(open('MANIFEST.json'))['checks']))")}
for p in $props; do
  s=$(date +%s)
  out=$(./bin/ssa2smt check --property $p --tier $tier 2>&1); rc=$?
  e=$(date +%s)
  echo "$p exit=$rc $((e-s))s $(echo "$out" | grep -E '^property=' | cut -c1-160)"
  echo "$out" | grep -E "^(VIOLATION|INCONCLUSIVE|KNOWN-FINDING)" | cut -c1-200
done
python3-vt - <<'PY'
import json,jsonschema,glob
sch=json.load(open('/root/.vp/EVIDENCE.schema.json'))
for f in sorted(glob.glob('/verif/evidence/*.json')):
    try:
        jsonschema.validate(json.load(open(f)),sch); print('evidence ok',f)
    except Exception as e:
        print('EVIDENCE INVALID',f,str(e)[:200])
PY
